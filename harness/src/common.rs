//! Shared pieces of the property checks: the (building, factors, k_exp, area, load matching) case,
//! parsing / evaluation helpers, scale computation.

use proptest::prelude::*;
use serde::{Deserialize, Serialize};
use serde_json::{json, Value};

use cteepbd::error::EpbdError;
use cteepbd::types::EnergyPerformance;
use cteepbd::{energy_performance, Components, Factors};

use crate::dom::*;
use crate::engine::{Failure, Tier};
use crate::fgen::{factor_case_for, FactorCase};
use crate::gen::{area_s, building, kexp_s, BParams, Building};
use crate::model::{lines_from_components, FTable, MLine};
use crate::tol::Scales;

#[derive(Clone, Debug, Serialize, Deserialize)]
pub struct BFCase {
    pub b: Building,
    pub f: FactorCase,
    pub k: f32,
    pub area: f32,
    pub lm: bool,
}

impl BFCase {
    pub fn describe(&self) -> Value {
        json!({
            "components": self.b.render(),
            "factors": self.f.describe(),
            "k_exp": self.k,
            "area": self.area,
            "load_matching": self.lm,
            "tags": self.b.tags,
        })
    }
}

pub fn bf_case(p: BParams, user_pct: u32) -> BoxedStrategy<BFCase> {
    building(&p)
        .prop_flat_map(move |b| {
            let cars = b.carriers();
            (Just(b), factor_case_for(cars, user_pct), kexp_s(), area_s(), any::<bool>())
        })
        .prop_map(|(b, f, k, area, lm)| BFCase { b, f, k, area, lm })
        .boxed()
}

/// set once by `params` / by the engine: generators that have no tier argument of their own (the DHW grammar) read it
pub static THOROUGH: std::sync::atomic::AtomicBool = std::sync::atomic::AtomicBool::new(false);
pub fn is_thorough() -> bool {
    THOROUGH.load(std::sync::atomic::Ordering::Relaxed)
}

pub fn params(tier: Tier) -> BParams {
    let mut p = BParams::std(tier == Tier::Quick);
    // auxiliary-bearing systems whose only service is NEPB or COGEN are valid input (the
    // auxiliaries are then accounted as non-EPB use); only C06 excludes them (its statement is
    // about systems that serve EPB services)
    p.aux_non_epb = true;
    p
}

pub fn err_kind(e: &EpbdError) -> &'static str {
    match e {
        EpbdError::ParseError(_) => "ParseError",
        EpbdError::WrongInput(_) => "WrongInput",
        EpbdError::MissingFactor(_) => "MissingFactor",
    }
}

/// Parse the rendered building; a rejection of a file that is valid by construction is reported.
pub fn parse_sound(b: &Building) -> Result<Components, Failure> {
    b.render().parse::<Components>().map_err(|e| {
        Failure::new("sound_input_rejected", format!("components file valid by construction was rejected: {} ({})", e, err_kind(&e)))
    })
}

pub fn prepare_sound(f: &FactorCase) -> Result<Factors, Failure> {
    f.prepare().map_err(|e| {
        Failure::new("sound_factors_rejected", format!("usable factor set was rejected: {} ({})", e, err_kind(&e)))
    })
}

pub fn eval_sound(c: &Components, f: &Factors, k: f32, area: f32, lm: bool) -> Result<EnergyPerformance, Failure> {
    energy_performance(c, f, k, area, lm).map_err(|e| {
        Failure::new("sound_evaluation_failed", format!("evaluation of valid inputs failed: {} ({})", e, err_kind(&e)))
    })
}

pub struct Inputs {
    pub comps: Components,
    pub factors: Factors,
    pub lines: Vec<MLine>,
    pub ft: FTable,
    pub n: usize,
    /// Σ|declared DEMANDA values| (before lines of one service are added up: opposite signs cancel)
    pub needs_abs: f64,
}

pub fn inputs(b: &Building, f: &FactorCase) -> Result<Inputs, Failure> {
    let comps = parse_sound(b)?;
    let factors = prepare_sound(f)?;
    let lines = lines_from_components(&comps);
    let ft = FTable::from_factors(&factors);
    let needs_abs = b.needs.iter().flat_map(|n| n.vals.iter()).map(|x| x.abs() as f64).sum();
    Ok(Inputs { comps, factors, lines, ft, n: b.n, needs_abs })
}

impl Inputs {
    pub fn scales(&self, area: f32) -> Scales {
        let mut sc = Scales::from_inputs(&self.lines, self.n, &self.ft, area as f64);
        let nd = &self.comps.needs;
        let summed: f64 = [&nd.ACS, &nd.CAL, &nd.REF].iter().filter_map(|x| x.as_ref()).flat_map(|v| v.iter()).map(|x| x.abs() as f64).sum();
        sc.needs = summed.max(self.needs_abs);
        sc
    }
}

pub fn cars_of_ep(ep: &EnergyPerformance) -> Vec<Car> {
    let mut v: Vec<Car> = ep.balance_cr.keys().map(|c| Car::from_lib(*c)).collect();
    v.sort();
    v
}

/// label of the buildings with daily / hourly series (365 steps or more), for the evidence histogram
pub fn label_long(ctx: &mut crate::engine::Ctx, b: &crate::gen::Building) {
    if b.n >= 365 {
        ctx.label("long_series");
    }
    if b.lines.len() >= 100 {
        ctx.label("many_lines");
    }
    if b.tags.iter().any(|t| t == "step_magnitudes") {
        ctx.label("step_magnitudes");
    }
}

/// the parser completed ambient / solar production: the parsed components hold more production components than
/// the file declares (decided by count, not by the wording of the comment the program writes on them)
pub fn completion_happened(b: &crate::gen::Building, comps: &cteepbd::Components) -> bool {
    let declared = b.lines.iter().filter(|l| matches!(l.kind, crate::gen::Kind::Prod { .. })).count();
    let parsed = comps.data.iter().filter(|e| e.is_generated()).count();
    parsed > declared
}
