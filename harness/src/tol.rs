//! The numeric tolerance policy (DESIGN 3.4) and the comparison of two flat views.

use std::collections::BTreeMap;

use crate::dom::*;
use crate::engine::Failure;
use crate::flat::{Entry, Flat, EK};
use crate::model::{FTable, MKind, MLine};

pub const EPS32: f64 = 1.1920929e-7; // 2^-23

/// tol(S, n) = (100 + 4 n) eps32 S + 1e-6
pub fn tol(s: f64, n: usize) -> f64 {
    (100.0 + 4.0 * n as f64) * EPS32 * s + 1e-6
}

#[derive(Clone, Debug, Default)]
pub struct Scales {
    pub n: usize,
    pub area: f64,
    pub energy: BTreeMap<Car, f64>,
    pub weighted: BTreeMap<Car, f64>,
    pub tot_energy: f64,
    pub tot_weighted: f64,
    /// Σ|DEMANDA values|
    pub needs: f64,
    /// conditioning of the output sums that weight the auxiliary split: max over systems, services and steps of
    /// Σ|SALIDA lines| / |Σ SALIDA lines| (1 when no lines cancel; the shares by service carry the f32 rounding of
    /// those sums amplified by this number)
    pub srv_cond: f64,
}

impl Scales {
    /// scales from the inputs: Σ|values| per carrier, times max(1, max |factor|) for weighted
    /// quantities; the electricity carrier also gets the weighted cogeneration input.
    pub fn from_inputs(lines: &[MLine], n: usize, ft: &FTable, area: f64) -> Scales {
        // `n` is the length of the longest chain of f32 additions behind a figure: the steps of the year, plus the
        // lines of the file when there are hundreds of them (a 1 500-line building was observed to drift by 1.7e-5)
        let n = n + lines.len().saturating_sub(64);
        let mut sc = Scales { n, area, srv_cond: 1.0, ..Default::default() };
        {
            let mut sums: BTreeMap<(i32, Srv), (Vec<f64>, Vec<f64>)> = BTreeMap::new();
            for l in lines {
                if let MKind::Out { srv } = &l.kind {
                    let e = sums.entry((l.id, *srv)).or_insert_with(|| (vec![0.0; l.vals.len()], vec![0.0; l.vals.len()]));
                    for (t, v) in l.vals.iter().enumerate() {
                        if t < e.0.len() {
                            e.0[t] += *v;
                            e.1[t] += v.abs();
                        }
                    }
                }
            }
            for (s, a) in sums.values() {
                for t in 0..s.len() {
                    if a[t] > 0.0 {
                        let c = if s[t].abs() > 0.0 { a[t] / s[t].abs() } else { 1e7 };
                        sc.srv_cond = sc.srv_cond.max(c.min(1e7));
                    }
                }
            }
        }
        // the derived factor of cogenerated electricity belongs to the electricity carrier's
        // factors: it is unbounded when the cogenerated amount is small against its input
        let mut ft = ft.clone();
        let _ = crate::model::add_cogen_factors(lines, &mut ft);
        let ft = &ft;
        let mut w_cgn = 0.0;
        for l in lines {
            if let Some(car) = l.carrier() {
                let s: f64 = l.vals.iter().map(|v| v.abs()).sum();
                *sc.energy.entry(car).or_default() += s;
                if let MKind::Used { srv: Srv::COGEN, car } = &l.kind {
                    w_cgn += s * ft.max_abs(*car).max(1.0);
                }
            }
        }
        for (car, s) in &sc.energy {
            let mut w = s * ft.max_abs(*car).max(1.0);
            if *car == Car::ELECTRICIDAD {
                w += w_cgn;
            }
            sc.weighted.insert(*car, w);
        }
        sc.tot_energy = sc.energy.values().sum();
        sc.tot_weighted = sc.weighted.values().sum();
        sc
    }
    pub fn scaled(&self, c: f64) -> Scales {
        let mut s = self.clone();
        for v in s.energy.values_mut() {
            *v *= c;
        }
        for v in s.weighted.values_mut() {
            *v *= c;
        }
        s.tot_energy *= c;
        s.tot_weighted *= c;
        s.needs *= c;
        s
    }
    pub fn s_energy(&self, car: Option<Car>) -> f64 {
        match car {
            Some(c) => self.energy.get(&c).cloned().unwrap_or(0.0),
            None => self.tot_energy,
        }
    }
    pub fn s_weighted(&self, car: Option<Car>) -> f64 {
        match car {
            Some(c) => self.weighted.get(&c).cloned().unwrap_or(0.0),
            None => self.tot_weighted,
        }
    }
    /// absolute tolerance for an entry of the flat view
    pub fn tol_entry(&self, e: &Entry) -> f64 {
        let base = match e.kind {
            EK::Energy | EK::StepVec => tol(self.s_energy(e.car), self.n),
            EK::Weighted => tol(self.s_weighted(e.car), self.n),
            EK::Need => tol(self.needs, self.n),
            // (a matching factor depends on sums of the step's lines and, through the annual shares of re-assigned
            // auxiliaries, on annual f32 sums, whose rounding grows with the length of the series)
            EK::RatioVec => 2e-5 + 2.0 * self.n as f64 * EPS32,
            EK::Ratio => 1e-4, // ratios are compared by dedicated code; fallback only
            EK::Param => 1e-6,
        };
        if e.m2 {
            base / self.area.max(1e-12) * (1.0 + 1e-6) + 4.0 * EPS32 * base / self.area.max(1e-12)
        } else {
            base
        }
    }
}

pub struct CmpOpts<'a> {
    /// paths (exact) that are not compared
    pub ignore: &'a [&'a str],
    /// path prefixes that are not compared
    pub ignore_prefix: &'a [&'a str],
    /// multiply every tolerance
    pub tol_mult: f64,
    /// names of the two sides in messages
    pub names: (&'a str, &'a str),
    /// compare `rer` with the denominator rule using this (den, S) pair; None = skip `rer*`
    pub rer_den: Option<(f64, f64)>,
    /// sub-check label used in failures
    pub sub: &'a str,
    /// additional absolute slack for energies [kWh] (per-m2 entries: divided by the area)
    pub slack_energy: f64,
    /// additional absolute slack for weighted energies
    pub slack_weighted: f64,
    /// do not compare per-step ratios (f_match)
    pub skip_ratio_vecs: bool,
}

impl<'a> Default for CmpOpts<'a> {
    fn default() -> Self {
        CmpOpts { ignore: &[], ignore_prefix: &[], tol_mult: 1.0, names: ("left", "right"), rer_den: None, sub: "compare", slack_energy: 0.0, slack_weighted: 0.0, skip_ratio_vecs: false }
    }
}

/// ratio tolerance: 2 tol / den + 4 eps. For a ratio r = num/den whose numerator is not bounded by
/// the denominator (the perimeter RERs under the known findings can be far outside [0, 1]) the
/// callers multiply by (1 + |r|): the relative error of the denominator is amplified by |r|.
pub fn ratio_tol(t: f64, den: f64) -> f64 {
    2.0 * t / den + 4.0 * EPS32
}

/// Weighted energy by service is the carrier's weighted energy times the service's share of the carrier's EPB use
/// (E.3.6), so its error is the carrier's error times that share plus a few ulps of the figure itself - not the
/// carrier's whole tolerance, under which the figure of a service that takes a millionth of a carrier would be free
/// to take any value. Returns None for other entries (or when the shares cannot be read from the views).
fn by_srv_share_tol(k: &str, a: &Flat, b: &Flat, sc: &Scales, mag: f64) -> Option<f64> {
    let parts: Vec<&str> = k.split('.').collect();
    let get = |p: String| -> Option<f64> { a.get(&p).or_else(|| b.get(&p)).and_then(|e| e.vals.first().cloned()) };
    let getmax = |p: String| -> Option<f64> {
        match (a.get(&p).and_then(|e| e.vals.first().cloned()), b.get(&p).and_then(|e| e.vals.first().cloned())) {
            (Some(x), Some(y)) => Some(x.max(y)),
            (x, y) => x.or(y),
        }
    };
    // (never below 1e-4 of the carrier's tolerance: the share itself carries the rounding of the auxiliary split, which
    // nearly cancelling output lines amplify; a figure of a few millionths of a kWh is not held to nine digits)
    let share = |car: &str, srv: &str| -> Option<f64> {
        let u = get(format!("cr.{}.used.epus_an", car))?;
        let us = getmax(format!("cr.{}.used.epus_by_srv_an.{}", car, srv)).unwrap_or(0.0);
        Some(if u > 0.0 { (us / u).clamp(1e-4, 1.0) } else { 1.0 })
    };
    let floor = 16.0 * EPS32 * mag * sc.srv_cond + 1e-9;
    match parts.as_slice() {
        ["cr", car, "we", which, srv] if *which == "a_by_srv" || *which == "b_by_srv" => {
            let c = ALL_CARS.iter().find(|c| c.name() == *car)?;
            Some(share(car, srv)? * tol(sc.s_weighted(Some(*c)), sc.n) + floor)
        }
        [top, "we", which, srv] if (*top == "bal" || *top == "m2") && (*which == "a_by_srv" || *which == "b_by_srv") => {
            let mut t = 0.0;
            let mut seen = 0;
            for c in ALL_CARS.iter() {
                if a.contains_key(&format!("cr.{}.used.epus_an", c.name())) || b.contains_key(&format!("cr.{}.used.epus_an", c.name())) {
                    t += share(c.name(), srv)? * tol(sc.s_weighted(Some(*c)), sc.n);
                    seen += 1;
                }
            }
            // (views that were filtered down to the by-service entries carry no carrier to read the shares from)
            if seen == 0 {
                return None;
            }
            if *top == "m2" {
                t /= sc.area.max(1e-12);
            }
            Some(t + floor)
        }
        _ => None,
    }
}

/// Compare two flat views entry by entry. Returns the number of ratio comparisons skipped by the
/// noise rule.
pub fn compare_flats(a: &Flat, b: &Flat, sc: &Scales, o: &CmpOpts) -> Result<u32, Failure> {
    let mut skipped = 0;
    let ignored = |p: &str| o.ignore.contains(&p) || o.ignore_prefix.iter().any(|x| p.starts_with(x));
    let zero = |e: &Entry| Entry { vals: vec![0.0; e.vals.len()], ..e.clone() };
    let mut keys: Vec<&String> = a.keys().chain(b.keys()).collect();
    keys.sort();
    keys.dedup();
    for k in keys {
        if ignored(k) {
            continue;
        }
        let (ea, eb) = match (a.get(k), b.get(k)) {
            (Some(x), Some(y)) => (x.clone(), y.clone()),
            (Some(x), None) => {
                if x.sparse {
                    (x.clone(), zero(x))
                } else {
                    return Err(Failure::new(o.sub, format!("`{}` present in {} and absent from {}", k, o.names.0, o.names.1)));
                }
            }
            (None, Some(y)) => {
                if y.sparse {
                    (zero(y), y.clone())
                } else {
                    return Err(Failure::new(o.sub, format!("`{}` present in {} and absent from {}", k, o.names.1, o.names.0)));
                }
            }
            (None, None) => unreachable!(),
        };
        if ea.vals.len() != eb.vals.len() {
            return Err(Failure::new(o.sub, format!("`{}` has {} values in {} and {} in {}", k, ea.vals.len(), o.names.0, eb.vals.len(), o.names.1)));
        }
        if ea.kind == EK::Ratio {
            match o.rer_den {
                None => continue,
                Some((den, s)) => {
                    if k != "rer" {
                        // other ratios are only compared when the caller says so through `ignore`
                    }
                    if den < 1e-3 * s || den <= 0.0 {
                        skipped += 1;
                        continue;
                    }
                    let (x, y) = (ea.vals[0], eb.vals[0]);
                    // 2 tol / den covers |r| <= 1; beyond that the denominator's error is amplified by |r|
                    let amp = ((1.0 + x.abs().max(y.abs())) / 2.0).max(1.0);
                    let t = ratio_tol(tol(s, sc.n), den) * o.tol_mult * if amp.is_finite() { amp } else { 1.0 };
                    if !((x - y).abs() <= t) {
                        return Err(Failure::new(o.sub, format!("`{}`: {} = {:e}, {} = {:e}, |diff| = {:e} > tol {:e}", k, o.names.0, x, o.names.1, y, (x - y).abs(), t)));
                    }
                    continue;
                }
            }
        }
        if o.skip_ratio_vecs && ea.kind == EK::RatioVec {
            continue;
        }
        let slack = match ea.kind {
            EK::Energy | EK::StepVec | EK::Need => o.slack_energy,
            EK::Weighted => o.slack_weighted,
            _ => 0.0,
        } / if ea.m2 { sc.area.max(1e-12) } else { 1.0 };
        let mag = ea.vals.iter().chain(eb.vals.iter()).fold(0.0f64, |m, x| m.max(x.abs()));
        let t = by_srv_share_tol(k, a, b, sc, mag).unwrap_or_else(|| sc.tol_entry(&ea)) * o.tol_mult + slack;
        for i in 0..ea.vals.len() {
            let (x, y) = (ea.vals[i], eb.vals[i]);
            if !((x - y).abs() <= t) {
                return Err(Failure::new(
                    o.sub,
                    format!("`{}`[{}]: {} = {:e}, {} = {:e}, |diff| = {:e} > tol {:e}", k, i, o.names.0, x, o.names.1, y, (x - y).abs(), t),
                ));
            }
        }
    }
    Ok(skipped)
}
