//! The building grammar (DESIGN 3.1): proptest strategies producing `Building` values and the
//! renderer that turns them into component-file text.
//!
//! Every random choice is a proptest choice (genome), resolved deterministically into concrete
//! values, so cases shrink and replay. Values are generated as integer hundredths ("cents") or
//! whole kWh, so the domain "zero or >= 0.01 kWh" holds by construction; the concrete value kept
//! in the `Building` is the `f32` the library will parse from the rendered text (rendering uses
//! Rust's shortest round-trip formatting, so parsed == stored, bit for bit).

use proptest::collection::vec;
use proptest::prelude::*;
use proptest::sample::select;
use serde::{Deserialize, Serialize};

use crate::dom::*;

#[derive(Clone, Debug, PartialEq, Serialize, Deserialize)]
pub enum Kind {
    Used { srv: Srv, car: Car },
    Prod { src: Src },
    Aux,
    Out { srv: Srv },
}

#[derive(Clone, Debug, PartialEq, Serialize, Deserialize)]
pub struct Line {
    pub id: i32,
    pub kind: Kind,
    pub vals: Vec<f32>,
    #[serde(default)]
    pub comment: String,
}

#[derive(Clone, Debug, PartialEq, Serialize, Deserialize)]
pub struct Need {
    pub srv: Srv,
    pub vals: Vec<f32>,
}

#[derive(Clone, Debug, PartialEq, Serialize, Deserialize, Default)]
pub struct Building {
    pub n: usize,
    #[serde(default)]
    pub meta: Vec<(String, String)>,
    #[serde(default)]
    pub needs: Vec<Need>,
    pub lines: Vec<Line>,
    /// generator labels (electricity regimes, system kinds) for the evidence histogram
    #[serde(default)]
    pub tags: Vec<String>,
}

/// exact decimal text of a number of cents, e.g. -1234 -> "-12.34"
pub fn cents_text(c: i64) -> String {
    let neg = c < 0;
    let a = c.unsigned_abs();
    format!("{}{}.{:02}", if neg { "-" } else { "" }, a / 100, a % 100)
}

/// the f32 the library parses from the 2-decimal text of `c` cents
pub fn cents_f32(c: i64) -> f32 {
    cents_text(c).parse::<f32>().unwrap()
}

/// the f32 the library parses from the 4-decimal text of `x` ten-thousandths of a kWh
pub fn u4_f32(x: i64) -> f32 {
    let neg = x < 0;
    let a = x.unsigned_abs();
    format!("{}{}.{:04}", if neg { "-" } else { "" }, a / 10_000, a % 10_000).parse::<f32>().unwrap()
}

/// shortest round-trip text of an f32 (never scientific notation)
pub fn f32_text(v: f32) -> String {
    if v == 0.0 {
        // avoid "-0"
        "0".to_string()
    } else {
        format!("{}", v)
    }
}

pub fn vals_text(vals: &[f32]) -> String {
    vals.iter().map(|v| f32_text(*v)).collect::<Vec<_>>().join(", ")
}

impl Line {
    pub fn render(&self) -> String {
        let head = match &self.kind {
            Kind::Used { srv, car } => format!("{}, CONSUMO, {}, {}", self.id, srv.name(), car.name()),
            Kind::Prod { src } => format!("{}, PRODUCCION, {}", self.id, src.name()),
            Kind::Aux => format!("{}, AUX", self.id),
            Kind::Out { srv } => format!("{}, SALIDA, {}", self.id, srv.name()),
        };
        let c = if self.comment.is_empty() { String::new() } else { format!(" # {}", self.comment) };
        format!("{}, {}{}", head, vals_text(&self.vals), c)
    }
    pub fn carrier(&self) -> Option<Car> {
        match &self.kind {
            Kind::Used { car, .. } => Some(*car),
            Kind::Prod { src } => Some(src.carrier()),
            Kind::Aux => Some(Car::ELECTRICIDAD),
            Kind::Out { .. } => None,
        }
    }
    pub fn sum(&self) -> f64 {
        self.vals.iter().map(|v| *v as f64).sum()
    }
}

impl Need {
    pub fn render(&self) -> String {
        format!("DEMANDA, {}, {}", self.srv.name(), vals_text(&self.vals))
    }
}

impl Building {
    /// canonical layout
    pub fn render(&self) -> String {
        let mut out = Vec::new();
        for (k, v) in &self.meta {
            out.push(format!("#META {}: {}", k, v));
        }
        for nd in &self.needs {
            out.push(nd.render());
        }
        for l in &self.lines {
            out.push(l.render());
        }
        out.join("\n")
    }
    pub fn carriers(&self) -> Vec<Car> {
        let mut v: Vec<Car> = self.lines.iter().filter_map(|l| l.carrier()).collect();
        v.sort();
        v.dedup();
        v
    }
    pub fn has_cogen_prod(&self) -> bool {
        self.lines.iter().any(|l| matches!(l.kind, Kind::Prod { src: Src::EL_COGEN }))
    }
    pub fn has_aux(&self) -> bool {
        self.lines.iter().any(|l| matches!(l.kind, Kind::Aux))
    }
    pub fn describe(&self) -> String {
        self.render()
    }
}

// ---------------------------------------------------------------------------------------------
// parameters

#[derive(Clone, Debug)]
pub struct BParams {
    pub max_steps: usize,
    pub max_systems: usize,
    pub max_lines: usize,
    pub allow_aux: bool,
    pub allow_out: bool,
    pub allow_cogen: bool,
    pub allow_nepb: bool,
    pub with_needs: bool,
    /// probability (in %) of a regime-forced electricity system
    pub regime_pct: u32,
    /// allowed carriers (the regime system needs ELECTRICIDAD)
    pub carriers: Vec<Car>,
    /// largest whole-kWh "huge" value (0 = no huge values)
    pub huge_kwh: u32,
    /// extra weight on EAMBIENTE / TERMOSOLAR lines
    pub env_heavy: bool,
    /// extra weight on cogeneration
    pub cogen_heavy: bool,
    /// also generate auxiliary-bearing systems whose only CONSUMO service is NEPB or COGEN
    /// (accepted by the parser; outside C06's claim, inside C08's and C16's)
    pub aux_non_epb: bool,
    /// values with four decimals (off for C18, whose bound assumes two-decimal inputs)
    pub fine: bool,
    /// weight (out of 500) of the long series (365 ... 8 760 steps); 15 = 3 %
    pub long_w: u32,
    /// weight (out of 100) of the buildings whose steps differ by orders of magnitude; 4 = 4 %
    pub mag_w: u32,
    /// weight (out of 1000) of the buildings replicated to 20-300 systems
    pub rep_w: u32,
}

impl BParams {
    pub fn std(quick: bool) -> BParams {
        BParams {
            max_steps: if quick { 24 } else { 96 },
            max_systems: if quick { 5 } else { 8 },
            max_lines: if quick { 4 } else { 6 },
            allow_aux: true,
            allow_out: true,
            allow_cogen: true,
            allow_nepb: true,
            with_needs: false,
            regime_pct: 50,
            carriers: ALL_CARS.to_vec(),
            huge_kwh: 10_000_000,
            env_heavy: false,
            cogen_heavy: false,
            aux_non_epb: false,
            fine: true,
            // (the thorough tier runs 100-300 times the cases: the expensive classes get a smaller share there)
            long_w: if quick { 10 } else { 2 },
            mag_w: 4,
            rep_w: if quick { 12 } else { 3 },
        }
    }
}

// ---------------------------------------------------------------------------------------------
// genome

#[derive(Clone, Debug)]
pub enum VG {
    Zero,
    Cents(u32),
    Kwh(u32),
    RelU,
    RelP,
    RelDiff,
    RelSum,
    RelHalfU,
    RelN,
    RelExpMinusN,
    /// whatever surplus of the step is not yet absorbed by non-EPB uses, plus some cents
    RelSurplusPlus(u32),
    /// a value with four decimals, in ten-thousandths of a kWh (>= 0.01 kWh)
    Fine(u32),
    /// the EPB use so far plus / minus a few ten-thousandths (production that misses the use by a hair)
    RelNearU(i8),
    /// the production so far plus / minus a few ten-thousandths
    RelNearP(i8),
}

/// `vg` plus values with four decimals (the property's domain is "zero or >= 0.01 kWh", not
/// "two decimals"): 8 % of the values
pub fn vg_fine(huge_kwh: u32) -> BoxedStrategy<VG> {
    prop_oneof![
        92 => vg(huge_kwh),
        4 => (100u32..=1_000_000).prop_map(VG::Fine),
        2 => (-9i8..=9).prop_map(VG::RelNearU),
        2 => (-9i8..=9).prop_map(VG::RelNearP),
    ]
    .boxed()
}

pub fn vg(huge_kwh: u32) -> BoxedStrategy<VG> {
    let huge: BoxedStrategy<VG> = if huge_kwh > 0 {
        (1u32..=huge_kwh).prop_map(VG::Kwh).boxed()
    } else {
        (1u32..=10_000).prop_map(VG::Cents).boxed()
    };
    prop_oneof![
        30 => Just(VG::Zero),
        5 => Just(VG::Cents(1)),
        10 => (1u32..=100).prop_map(VG::Cents),
        25 => (1u32..=10_000).prop_map(VG::Cents),
        8 => (1u32..=1_000_000).prop_map(VG::Cents),
        2 => huge,
        4 => Just(VG::RelU),
        4 => Just(VG::RelP),
        4 => Just(VG::RelDiff),
        2 => Just(VG::RelSum),
        2 => Just(VG::RelHalfU),
        2 => Just(VG::RelN),
        2 => Just(VG::RelExpMinusN),
        2 => (0u32..=2_000).prop_map(VG::RelSurplusPlus),
    ]
    .boxed()
}

#[derive(Clone, Debug)]
pub enum OutVG {
    Zero,
    Pos(u32),
    Neg(u32),
}

pub fn outvg() -> BoxedStrategy<OutVG> {
    prop_oneof![
        30 => Just(OutVG::Zero),
        36 => (1u32..=100_000).prop_map(OutVG::Pos),
        26 => (1u32..=100_000).prop_map(OutVG::Neg),
        // outputs of a few hundredths of a kWh (a system that barely runs at a step): where an absolute
        // threshold on the delivered energy would bite
        5 => (1u32..=4).prop_map(OutVG::Pos),
        3 => (1u32..=4).prop_map(OutVG::Neg),
    ]
    .boxed()
}

#[derive(Clone, Debug)]
pub enum LK {
    Used(Srv, Car),
    Prod(Src),
}

#[derive(Clone, Debug)]
pub struct LG {
    pub kind: LK,
    pub vals: Vec<VG>,
    pub pos: u8,
    pub comment: String,
}

#[derive(Clone, Debug)]
pub enum SysKind {
    Free,
    AuxSingle(Srv),
    AuxMulti,
}

#[derive(Clone, Debug)]
pub struct SysG {
    pub kind: SysKind,
    pub lines: Vec<LG>,
    pub aux: Vec<(Vec<VG>, u8)>,
    pub outs: Vec<(Srv, Vec<OutVG>, u8)>,
}

#[derive(Clone, Debug)]
pub struct RegimeG {
    pub srv1: Srv,
    pub srv2: Option<(Srv, u8)>, // second service and its share in 1/8
    pub has_pv: bool,
    pub has_chp: bool,
    pub fuel: Car,
    pub fuel2: Option<Car>,
    pub nepb: Option<Vec<VG>>,
    /// non-EPB electricity use that absorbs the whole surplus of every step, plus some cents
    /// (annual grid export exactly 0 with export to non-EPB uses > 0)
    pub nepb_absorb: Option<u32>,
    pub steps: Vec<(u8, u32, u32, u32)>,
    pub pos: u8,
}

#[derive(Clone, Debug)]
pub struct BuildingG {
    pub n: usize,
    /// number of steps actually kept (<= n): gives the shrinker a way to drop steps without
    /// regenerating the whole building
    pub keep: usize,
    pub id_off: u8,
    pub systems: Vec<SysG>,
    pub regime: Option<RegimeG>,
    pub needs: Vec<(Srv, Vec<i64>)>,
    pub interleave: bool,
    pub cogen_fuel: Car,
    /// every value vector is repeated `tile` times (daily / hourly data: 365 ... 8 760 steps), cheaply:
    /// the pattern of the n generated steps recurs, the length is what changes
    pub tile: usize,
    /// the whole set of systems is repeated `rep` times under other ids (id + 1000 j): buildings with hundreds of
    /// systems and lines (not combined with long series)
    pub rep: usize,
    /// per-step orders of magnitude: every value of step t is multiplied by 10^e_t (the same factor for all lines,
    /// so that the relations inside a step - production equal to the use, and so on - survive): 1 = the first
    /// step is 10^5..10^7 times the others, 2 = the last one, 3 = exponents vary from step to step, 4 = the first
    /// step times 10^7 and every value of the other steps reduced to its part below 1 kWh (one dominant step: what
    /// happens at the small steps is far below the rounding of the annual sums)
    pub mag: u8,
}

/// v x 10^e, exactly in decimal (the text of v with the decimal point moved), as the f32 the library will parse
pub fn shift10(v: f32, e: u32) -> f32 {
    if v == 0.0 || e == 0 {
        return v;
    }
    let t = f32_text(v);
    let (neg, t) = match t.strip_prefix('-') {
        Some(r) => (true, r.to_string()),
        None => (false, t),
    };
    let (ip, fp) = match t.split_once('.') {
        Some((a, b)) => (a.to_string(), b.to_string()),
        None => (t.clone(), String::new()),
    };
    let e = e as usize;
    let (ip2, fp2) = if fp.len() <= e { (format!("{}{}{}", ip, fp, "0".repeat(e - fp.len())), String::new()) } else { (format!("{}{}", ip, &fp[..e]), fp[e..].to_string()) };
    let txt = format!("{}{}{}{}", if neg { "-" } else { "" }, ip2, if fp2.is_empty() { "" } else { "." }, fp2);
    txt.parse::<f32>().unwrap_or(v)
}

const ID_POOL: [i32; 10] = [0, 1, 2, 3, 7, -1, -2, 12, 5, 40];

pub fn n_steps(max: usize) -> BoxedStrategy<usize> {
    let hi = max.max(4);
    prop_oneof![
        3 => Just(1usize),
        2 => Just(2usize),
        2 => Just(3usize),
        3 => Just(12usize.min(max)),
        2 => 4usize..=hi,
    ]
    .boxed()
}

pub fn comment_s() -> BoxedStrategy<String> {
    prop_oneof![
        32 => Just(String::new()),
        8 => "[A-Za-z0-9 _.;:()áñ-]{1,12}".prop_map(|s| s.trim().to_string()),
        // words the program gives (or once gave) a meaning to: they are part of what a line declares
        // (markers, and the two comments the program writes on the components it adds itself - a saved
        // output reused as input carries them on declared lines)
        2 => select(vec!["CTEEPBD_EXCLUYE_SCOP_ACS", "BdC aire-agua CTEEPBD_EXCLUYE_SCOP_ACS", "CTEEPBD_AUX", "bomba CTEEPBD_EXCLUYE_AUX_ACS x", "CTEEPBD_",
                         "Equilibrado de consumo sin producción declarada", "Reasignación automática de consumos auxiliares"]).prop_map(|s| s.to_string()),
    ]
    .boxed()
}

fn weighted_cars(p: &BParams, no_elec: bool) -> Vec<Car> {
    let mut v = vec![];
    for c in &p.carriers {
        let w = match c {
            Car::ELECTRICIDAD => {
                if no_elec {
                    0
                } else {
                    6
                }
            }
            Car::EAMBIENTE => {
                if p.env_heavy {
                    8
                } else {
                    3
                }
            }
            Car::TERMOSOLAR => {
                if p.env_heavy {
                    6
                } else {
                    2
                }
            }
            _ => 1,
        };
        for _ in 0..w {
            v.push(*c);
        }
    }
    if v.is_empty() {
        // fall back to any allowed carrier
        v.extend(p.carriers.iter().cloned().filter(|c| !(no_elec && *c == Car::ELECTRICIDAD)));
    }
    if v.is_empty() {
        v.push(p.carriers[0]);
    }
    v
}

fn weighted_srcs(p: &BParams, no_elec: bool) -> Vec<Src> {
    let mut v = vec![];
    let has = |c: Car| p.carriers.contains(&c);
    if has(Car::ELECTRICIDAD) && !no_elec {
        for _ in 0..4 {
            v.push(Src::EL_INSITU);
        }
        if p.allow_cogen {
            for _ in 0..(if p.cogen_heavy { 5 } else { 2 }) {
                v.push(Src::EL_COGEN);
            }
        }
    }
    if has(Car::TERMOSOLAR) {
        for _ in 0..(if p.env_heavy { 5 } else { 2 }) {
            v.push(Src::TERMOSOLAR);
        }
    }
    if has(Car::EAMBIENTE) {
        for _ in 0..(if p.env_heavy { 6 } else { 3 }) {
            v.push(Src::EAMBIENTE);
        }
    }
    v
}

fn weighted_srvs(p: &BParams) -> Vec<Srv> {
    let mut v = vec![];
    for s in EPB_SRVS {
        for _ in 0..5 {
            v.push(s);
        }
    }
    if p.allow_nepb {
        for _ in 0..4 {
            v.push(Srv::NEPB);
        }
    }
    if p.allow_cogen {
        for _ in 0..(if p.cogen_heavy { 5 } else { 2 }) {
            v.push(Srv::COGEN);
        }
    }
    v
}

fn lk(p: &BParams, no_elec: bool, only_srv: Option<Srv>) -> BoxedStrategy<LK> {
    let cars = weighted_cars(p, no_elec);
    let srcs = weighted_srcs(p, no_elec);
    let srvs = match only_srv {
        Some(s) => vec![s],
        None => weighted_srvs(p),
    };
    let used = (select(srvs), select(cars)).prop_map(|(s, c)| LK::Used(s, c));
    if srcs.is_empty() {
        used.boxed()
    } else {
        prop_oneof![
            7 => used,
            3 => select(srcs).prop_map(LK::Prod),
        ]
        .boxed()
    }
}

fn lg(n: usize, p: &BParams, no_elec: bool, only_srv: Option<Srv>) -> BoxedStrategy<LG> {
    (lk(p, no_elec, only_srv), vec(if p.fine { vg_fine(p.huge_kwh) } else { vg(p.huge_kwh) }, n), any::<u8>(), comment_s())
        .prop_map(|(kind, vals, pos, comment)| LG { kind, vals, pos, comment })
        .boxed()
}

fn used_only_lg(n: usize, p: &BParams, no_elec: bool, srv: Srv) -> BoxedStrategy<LG> {
    let cars = weighted_cars(p, no_elec);
    (select(cars), vec(if p.fine { vg_fine(p.huge_kwh) } else { vg(p.huge_kwh) }, n), any::<u8>(), comment_s())
        .prop_map(move |(c, vals, pos, comment)| LG { kind: LK::Used(srv, c), vals, pos, comment })
        .boxed()
}

fn sysg(n: usize, p: &BParams, no_elec: bool) -> BoxedStrategy<SysG> {
    let p2 = p.clone();
    let maxl = p.max_lines;
    let outs_free = if p.allow_out {
        vec((select(EPB_SRVS.to_vec()), vec(outvg(), n), any::<u8>()), 0..=2).boxed()
    } else {
        Just(vec![]).boxed()
    };
    let free = (vec(lg(n, p, no_elec, None), 1..=maxl), outs_free.clone())
        .prop_map(|(lines, outs)| SysG { kind: SysKind::Free, lines, aux: vec![], outs })
        .boxed();
    if !p.allow_aux {
        return free;
    }
    let p3 = p.clone();
    let srcs = weighted_srcs(p, no_elec);
    let huge = p.huge_kwh;
    let prods_s: BoxedStrategy<Vec<(Src, Vec<VG>, u8)>> = if srcs.is_empty() {
        Just(vec![]).boxed()
    } else {
        vec((select(srcs), vec(if p.fine { vg_fine(huge) } else { vg(huge) }, n), any::<u8>()), 0..=1).boxed()
    };
    let single_srvs: Vec<Srv> = if p.aux_non_epb {
        let mut v = EPB_SRVS.to_vec();
        v.extend([Srv::NEPB, Srv::COGEN, Srv::NEPB, Srv::COGEN]);
        v
    } else {
        EPB_SRVS.to_vec()
    };
    let aux_single = select(single_srvs)
        .prop_flat_map(move |srv| {
            (
                Just(srv),
                vec(used_only_lg(n, &p3, no_elec, srv), 1..=maxl.min(3)),
                prods_s.clone(),
                vec((vec(vg(0), n), any::<u8>()), 1..=2),
                vec((select(EPB_SRVS.to_vec()), vec(outvg(), n), any::<u8>()), 0..=2),
            )
        })
        .prop_map(|(srv, mut lines, prods, aux, outs)| {
            for (s, vals, pos) in prods {
                lines.push(LG { kind: LK::Prod(s), vals, pos, comment: String::new() });
            }
            SysG { kind: SysKind::AuxSingle(srv), lines, aux, outs }
        })
        .boxed();
    if !p.allow_out {
        return prop_oneof![7 => free, 3 => aux_single].boxed();
    }
    let aux_multi = (
        vec(lg(n, &p2, no_elec, None), 0..=maxl),
        vec((vec(vg(0), n), any::<u8>()), 1..=3),
        vec((select(EPB_SRVS.to_vec()), vec(outvg(), n), any::<u8>()), 1..=4),
    )
        .prop_map(|(lines, aux, outs)| SysG { kind: SysKind::AuxMulti, lines, aux, outs })
        .boxed();
    prop_oneof![6 => free, 2 => aux_single, 2 => aux_multi].boxed()
}

const FUELS: [Car; 6] = [
    Car::GASNATURAL,
    Car::BIOMASA,
    Car::GASOLEO,
    Car::BIOCARBURANTE,
    Car::GLP,
    Car::BIOMASADENSIFICADA,
];

fn allowed_fuels(p: &BParams) -> Vec<Car> {
    let v: Vec<Car> = FUELS.iter().cloned().filter(|c| p.carriers.contains(c)).collect();
    if v.is_empty() {
        vec![p.carriers[0]]
    } else {
        v
    }
}

fn regimeg(n: usize, p: &BParams) -> BoxedStrategy<RegimeG> {
    let fuels = allowed_fuels(p);
    let allow_cogen = p.allow_cogen;
    let allow_nepb = p.allow_nepb;
    let huge = p.huge_kwh;
    (
        select(EPB_SRVS.to_vec()),
        proptest::option::weighted(0.5, (select(EPB_SRVS.to_vec()), 1u8..=7)),
        prop::bool::weighted(0.85),
        prop::bool::weighted(if p.cogen_heavy { 0.8 } else { 0.5 }),
        select(fuels.clone()),
        proptest::option::weighted(0.3, select(fuels)),
        proptest::option::weighted(0.5, vec(vg(huge), n)),
        vec((0u8..7, 0u32..=50_000, 1u32..=50_000, 0u32..=50_000), n),
        (any::<u8>(), proptest::option::weighted(0.2, 0u32..=5_000)),
    )
        .prop_map(move |(srv1, srv2, has_pv, has_chp, fuel, fuel2, nepb, steps, (pos, nepb_absorb))| RegimeG {
            srv1,
            srv2,
            has_pv,
            has_chp: has_chp && allow_cogen,
            fuel,
            fuel2,
            nepb: if allow_nepb { nepb } else { None },
            nepb_absorb: if allow_nepb { nepb_absorb } else { None },
            steps,
            pos,
        })
        .boxed()
}

pub fn building_g(p: &BParams) -> BoxedStrategy<BuildingG> {
    let p = p.clone();
    n_steps(p.max_steps)
        .prop_flat_map(move |n| {
            let has_elec = p.carriers.contains(&Car::ELECTRICIDAD);
            let reg_p = if has_elec { p.regime_pct as f64 / 100.0 } else { 0.0 };
            let p1 = p.clone();
            let needs = if p.with_needs {
                // mode 0: as drawn; 1: all values negative (absorbed energy, e.g. cooling); 2: all zero;
                // 3: odd hundredths negative (mixed signs). Magnitudes below 1 kWh are over-represented:
                // signs and small values are where a formatter goes wrong
                let dv = prop_oneof![1 => Just(0u32), 2 => 1u32..=60, 1 => 1u32..=1_000, 6 => 0u32..=200_000];
                vec(
                    (select(vec![Srv::ACS, Srv::CAL, Srv::REF]), vec(dv, n), prop_oneof![7 => Just(0u8), 1 => Just(1u8), 1 => Just(2u8), 1 => Just(3u8)]).prop_map(|(s, v, mode)| {
                        let v: Vec<i64> = v.iter().map(|x| match mode {
                            1 => -(*x as i64),
                            2 => 0,
                            3 if *x % 2 == 1 => -(*x as i64),
                            _ => *x as i64,
                        }).collect();
                        (s, v)
                    }),
                    0..=4,
                )
                .boxed()
            } else {
                Just(vec![]).boxed()
            };
            let fuels = allowed_fuels(&p);
            let regime_s: BoxedStrategy<Option<RegimeG>> = if reg_p <= 0.0 {
                Just(None).boxed()
            } else if reg_p >= 1.0 {
                regimeg(n, &p).prop_map(Some).boxed()
            } else {
                proptest::option::weighted(reg_p, regimeg(n, &p)).boxed()
            };
            (
                prop_oneof![1 => 0..n, 9 => Just(n - 1)],
                regime_s,
                prop::bool::weighted(0.7),
                any::<u8>(),
                needs,
                any::<bool>(),
                select(fuels),
                // long series: about one building in 33 has 365, 1 000, 4 380 or 8 760 steps (total, after tiling)
                if p.max_steps >= 12 { prop_oneof![500 - p.long_w => Just(0usize), p.long_w => prop_oneof![2 => Just(365usize), 2 => Just(1000usize), 5 => Just(4380usize), 6 => Just(8760usize)]].boxed() } else { Just(0usize).boxed() },
                // many systems: about one building in 70
                if p.max_steps >= 12 { prop_oneof![1000 - p.rep_w => Just(1usize), p.rep_w => prop_oneof![2 => Just(20usize), 2 => Just(70usize), 1 => Just(200usize)]].boxed() } else { Just(1usize).boxed() },
                // steps of very different magnitude inside one building: about one building in 25
                if p.max_steps >= 12 && p.huge_kwh > 0 { prop_oneof![100 - p.mag_w => Just(0u8), p.mag_w => prop_oneof![2 => Just(1u8), 1 => Just(2u8), 1 => Just(3u8), 2 => Just(4u8)]].boxed() } else { Just(0u8).boxed() },
            )
                .prop_flat_map(move |(keep, regime, quiet_elec, id_off, needs, interleave, cogen_fuel, long, rep, mag)| {
                    let no_elec = regime.is_some() && quiet_elec;
                    let min_sys = if regime.is_some() { 0 } else { 1 };
                    (
                        Just(keep + 1),
                        vec(sysg(n, &p1, no_elec), min_sys..=p1.max_systems),
                        Just(regime),
                        Just(id_off),
                        Just(needs),
                        Just(interleave),
                        Just(cogen_fuel),
                        Just(long),
                        Just(rep),
                        Just(mag),
                    )
                })
                .prop_map(move |(keep, systems, regime, id_off, needs, interleave, cogen_fuel, long, rep, mag)| BuildingG {
                    n,
                    keep,
                    id_off,
                    systems,
                    regime,
                    needs,
                    interleave,
                    cogen_fuel,
                    tile: (long / keep.max(1)).max(1),
                    rep: if long == 0 { rep } else { 1 },
                    mag,
                })
        })
        .boxed()
}

pub fn building(p: &BParams) -> BoxedStrategy<Building> {
    building_g(p).prop_map(|g| resolve(&g)).boxed()
}

// ---------------------------------------------------------------------------------------------
// resolution genome -> building

struct Acc {
    u: Vec<Vec<i64>>,
    p: Vec<Vec<i64>>,
    nn: Vec<Vec<i64>>,
}

impl Acc {
    fn new(n: usize) -> Acc {
        Acc { u: vec![vec![0; n]; 12], p: vec![vec![0; n]; 12], nn: vec![vec![0; n]; 12] }
    }
    fn val(&self, g: &VG, car: Car, t: usize) -> i64 {
        let (u, p, nn) = (self.u[car.idx()][t], self.p[car.idx()][t], self.nn[car.idx()][t]);
        match g {
            VG::Zero => 0,
            VG::Cents(c) => *c as i64,
            VG::Kwh(k) => *k as i64 * 100,
            VG::RelU => u,
            VG::RelP => p,
            VG::RelDiff => (u - p).abs(),
            VG::RelSum => u + p,
            VG::RelHalfU => u / 2,
            VG::RelN => nn,
            VG::RelExpMinusN => ((p - u).max(0) - nn).abs(),
            VG::RelSurplusPlus(c) => ((p - u).max(0) - nn).max(0) + *c as i64,
            VG::Fine(x) => *x as i64 / 100,
            VG::RelNearU(_) => u,
            VG::RelNearP(_) => p,
        }
    }
    /// the value in ten-thousandths of a kWh; never in (0, 0.01 kWh)
    fn val4(&self, g: &VG, car: Car, t: usize) -> i64 {
        let (u, p) = (self.u[car.idx()][t], self.p[car.idx()][t]);
        let x = match g {
            VG::Fine(x) => *x as i64,
            VG::RelNearU(d) => u * 100 + *d as i64,
            VG::RelNearP(d) => p * 100 + *d as i64,
            other => self.val(other, car, t) * 100,
        };
        if x < 100 {
            0
        } else {
            x
        }
    }
}

pub fn resolve(g: &BuildingG) -> Building {
    let n = g.keep.min(g.n).max(1);
    let mut acc = Acc::new(n);
    let mut items: Vec<(u8, Line)> = vec![];
    let mut tags: Vec<String> = vec![];
    let mut next_id = g.id_off as usize;
    let mut take_id = || {
        let id = ID_POOL[next_id % ID_POOL.len()];
        next_id += 1;
        id
    };

    // regime-forced electricity system first, so that the other lines can relate to it
    if let Some(r) = &g.regime {
        let id = take_id();
        let mut use1 = vec![0i64; n];
        let mut use2 = vec![0i64; n];
        let mut pv = vec![0i64; n];
        let mut chp = vec![0i64; n];
        let mut seen = [false; 7];
        for t in 0..n {
            let (reg, a, b, c) = r.steps[t];
            let (a, b, c) = (a as i64, b as i64, c as i64);
            let (u, mut v, mut w) = match reg {
                0 => (a, 0, 0),
                1 => (0, a, b),
                2 => (a, a + b, c),
                3 => (a + b, a, b + c),
                4 => (a + b + c + 1, a, b),
                5 => (a, a, c),
                _ => (a, 0, b),
            };
            if !r.has_pv {
                v = 0;
            }
            if !r.has_chp {
                w = 0;
            }
            seen[reg as usize] = true;
            match r.srv2 {
                Some((_, share)) => {
                    let s2 = u * share as i64 / 8;
                    use1[t] = u - s2;
                    use2[t] = s2;
                }
                None => use1[t] = u,
            }
            pv[t] = v;
            chp[t] = w;
            acc.u[Car::ELECTRICIDAD.idx()][t] += u;
            acc.p[Car::ELECTRICIDAD.idx()][t] += v + w;
        }
        tags.push(format!(
            "regimes:{}",
            seen.iter().filter(|s| **s).count()
        ));
        let mk = |kind: Kind, c: &Vec<i64>| Line {
            id,
            kind,
            vals: c.iter().map(|x| cents_f32(*x)).collect(),
            comment: String::new(),
        };
        items.push((r.pos, mk(Kind::Used { srv: r.srv1, car: Car::ELECTRICIDAD }, &use1)));
        if let Some((s2, _)) = r.srv2 {
            items.push((r.pos.wrapping_add(31), mk(Kind::Used { srv: s2, car: Car::ELECTRICIDAD }, &use2)));
        }
        if r.has_pv {
            items.push((r.pos.wrapping_add(67), mk(Kind::Prod { src: Src::EL_INSITU }, &pv)));
        }
        if r.has_chp {
            items.push((r.pos.wrapping_add(101), mk(Kind::Prod { src: Src::EL_COGEN }, &chp)));
            // cogeneration input: about 2.5 x the cogenerated electricity, split over 1-2 fuels
            let fin: Vec<i64> = chp.iter().map(|c| c * 5 / 2).collect();
            match r.fuel2 {
                Some(f2) if f2 != r.fuel => {
                    let a: Vec<i64> = fin.iter().map(|c| c / 3).collect();
                    let b: Vec<i64> = fin.iter().zip(a.iter()).map(|(c, a)| c - a).collect();
                    items.push((r.pos.wrapping_add(131), mk(Kind::Used { srv: Srv::COGEN, car: r.fuel }, &a)));
                    items.push((r.pos.wrapping_add(151), mk(Kind::Used { srv: Srv::COGEN, car: f2 }, &b)));
                }
                _ => items.push((r.pos.wrapping_add(131), mk(Kind::Used { srv: Srv::COGEN, car: r.fuel }, &fin))),
            }
        }
        if let Some(c) = r.nepb_absorb {
            let e = Car::ELECTRICIDAD.idx();
            let vals: Vec<i64> = (0..n).map(|t| (acc.p[e][t] - acc.u[e][t]).max(0) + c as i64).collect();
            for t in 0..n {
                acc.nn[e][t] += vals[t];
            }
            items.push((r.pos.wrapping_add(173), mk(Kind::Used { srv: Srv::NEPB, car: Car::ELECTRICIDAD }, &vals)));
            tags.push("nepb_absorbs_all_surplus".into());
        } else if let Some(nv) = &r.nepb {
            let vals: Vec<i64> = (0..n).map(|t| acc.val(&nv[t], Car::ELECTRICIDAD, t)).collect();
            for t in 0..n {
                acc.nn[Car::ELECTRICIDAD.idx()][t] += vals[t];
            }
            items.push((r.pos.wrapping_add(173), mk(Kind::Used { srv: Srv::NEPB, car: Car::ELECTRICIDAD }, &vals)));
        }
    }

    for s in &g.systems {
        let id = take_id();
        match &s.kind {
            SysKind::Free => tags.push("sys:free".into()),
            SysKind::AuxSingle(_) => tags.push("sys:aux_single".into()),
            SysKind::AuxMulti => tags.push("sys:aux_multi".into()),
        }
        let mut lines = s.lines.clone();
        if let SysKind::AuxMulti = s.kind {
            // a multi-service system has either no CONSUMO line or >= 2 distinct services
            let mut srvs: Vec<Srv> = lines
                .iter()
                .filter_map(|l| if let LK::Used(sv, _) = l.kind { Some(sv) } else { None })
                .collect();
            srvs.sort();
            srvs.dedup();
            if srvs.len() == 1 {
                // turn the first CONSUMO line's twin into another service by adding a copy
                let first = lines.iter().find(|l| matches!(l.kind, LK::Used(..))).cloned().unwrap();
                if let LK::Used(sv, car) = first.kind {
                    let other = EPB_SRVS.iter().cloned().find(|x| *x != sv).unwrap();
                    lines.push(LG { kind: LK::Used(other, car), vals: first.vals.clone(), pos: first.pos.wrapping_add(7), comment: String::new() });
                }
            }
        }
        for l in &lines {
            let (kind, car) = match &l.kind {
                LK::Used(sv, c) => (Kind::Used { srv: *sv, car: *c }, *c),
                LK::Prod(src) => (Kind::Prod { src: *src }, src.carrier()),
            };
            let u4: Vec<i64> = (0..n).map(|t| acc.val4(&l.vals[t], car, t)).collect();
            let cents: Vec<i64> = u4.iter().map(|x| (x + 50) / 100).collect();
            for t in 0..n {
                match &l.kind {
                    LK::Used(sv, _) if sv.is_epb() => acc.u[car.idx()][t] += cents[t],
                    LK::Used(Srv::NEPB, _) => acc.nn[car.idx()][t] += cents[t],
                    LK::Used(..) => {}
                    LK::Prod(_) => acc.p[car.idx()][t] += cents[t],
                }
            }
            items.push((
                l.pos,
                Line { id, kind, vals: u4.iter().map(|x| u4_f32(*x)).collect(), comment: l.comment.clone() },
            ));
        }
        for (av, pos) in &s.aux {
            let cents: Vec<i64> = (0..n).map(|t| acc.val(&av[t], Car::ELECTRICIDAD, t)).collect();
            for t in 0..n {
                acc.u[Car::ELECTRICIDAD.idx()][t] += cents[t];
            }
            items.push((*pos, Line { id, kind: Kind::Aux, vals: cents.iter().map(|c| cents_f32(*c)).collect(), comment: String::new() }));
        }
        let mut outs: Vec<(Srv, Vec<i64>, u8)> = s
            .outs
            .iter()
            .map(|(sv, ov, pos)| {
                (
                    *sv,
                    ov.iter()
                        .take(n)
                        .map(|o| match o {
                            OutVG::Zero => 0,
                            OutVG::Pos(c) => *c as i64,
                            OutVG::Neg(c) => -(*c as i64),
                        })
                        .collect(),
                    *pos,
                )
            })
            .collect();
        if let SysKind::AuxMulti = s.kind {
            // one system in six delivers the same energy to each of its services at every step (equal
            // shares: the re-assigned auxiliary lines are then textually identical)
            if outs.len() >= 2 && outs[0].2 % 6 == 0 {
                let v0 = outs[0].1.clone();
                for o in outs.iter_mut().skip(1) {
                    o.1 = v0.clone();
                }
                tags.push("equal_outputs".into());
            }
            // assignable: total magnitude of the outputs (per service sums) must be > 0
            let mut per_srv: std::collections::BTreeMap<Srv, Vec<i64>> = Default::default();
            for (sv, v, _) in &outs {
                let e = per_srv.entry(*sv).or_insert_with(|| vec![0; n]);
                for t in 0..n {
                    e[t] += v[t];
                }
            }
            let mag: i64 = per_srv.values().map(|v| v.iter().map(|x| x.abs()).sum::<i64>()).sum();
            if mag == 0 {
                outs[0].1[0] += 1234;
            }
        }
        for (sv, v, pos) in outs {
            items.push((pos, Line { id, kind: Kind::Out { srv: sv }, vals: v.iter().map(|c| cents_f32(*c)).collect(), comment: String::new() }));
        }
    }

    // documented precondition: cogenerated electricity needs a declared cogeneration input
    let has_chp = items.iter().any(|(_, l)| matches!(l.kind, Kind::Prod { src: Src::EL_COGEN }));
    let has_cgn_use = items.iter().any(|(_, l)| matches!(l.kind, Kind::Used { srv: Srv::COGEN, .. }));
    if has_chp && !has_cgn_use {
        let id = take_id();
        let chp_t: Vec<i64> = (0..n)
            .map(|t| {
                items
                    .iter()
                    .filter(|(_, l)| matches!(l.kind, Kind::Prod { src: Src::EL_COGEN }))
                    .map(|(_, l)| (l.vals[t] as f64 * 100.0).round() as i64)
                    .sum::<i64>()
            })
            .collect();
        let vals: Vec<f32> = chp_t.iter().map(|c| cents_f32(c * 2 + 100)).collect();
        items.push((200, Line { id, kind: Kind::Used { srv: Srv::COGEN, car: g.cogen_fuel }, vals, comment: String::new() }));
        tags.push("cogen_input_added".into());
    }

    if g.interleave {
        items.sort_by_key(|(pos, _)| *pos);
    }
    let mut lines: Vec<Line> = items.into_iter().map(|(_, l)| l).collect();
    let mut needs: Vec<Need> = g
        .needs
        .iter()
        .map(|(sv, v)| Need { srv: *sv, vals: v.iter().take(n).map(|c| cents_f32(*c)).collect() })
        .collect();
    if g.mag > 0 && n >= 2 {
        let big = 5 + (g.id_off as u32 % 3);
        for t in 0..n {
            if g.mag == 4 && t > 0 {
                for l in lines.iter_mut() {
                    // (output energies are left as they are: they only weight the auxiliary split, and a system
                    // whose outputs all vanished would no longer be assignable)
                    if matches!(l.kind, Kind::Out { .. }) {
                        continue;
                    }
                    let v = l.vals[t];
                    let frac = v - v.trunc();
                    let cents = (frac.abs() * 100.0).round() as i64;
                    l.vals[t] = cents_f32(if v < 0.0 { -cents } else { cents });
                }
                continue;
            }
            let want = match g.mag {
                4 => 7,
                1 => if t == 0 { big } else { 0 },
                2 => if t == n - 1 { big } else { 0 },
                _ => (g.id_off as u32 + 3 * t as u32) % 8,
            };
            // keep every value of the step at or below 1e9 kWh
            let mx = lines.iter().map(|l| l.vals[t].abs() as f64).fold(0.0f64, f64::max);
            let mut e = want;
            while e > 0 && mx * 10f64.powi(e as i32) > 1e9 {
                e -= 1;
            }
            if e > 0 {
                for l in lines.iter_mut() {
                    l.vals[t] = shift10(l.vals[t], e);
                }
            }
        }
        tags.push("step_magnitudes".into());
    }
    if g.rep > 1 {
        let base = lines.clone();
        for j in 1..g.rep {
            for l in &base {
                let mut l2 = l.clone();
                l2.id += 1000 * j as i32;
                lines.push(l2);
            }
        }
        tags.push("many_systems".into());
    }
    let mut n = n;
    if g.tile > 1 {
        for l in lines.iter_mut() {
            l.vals = l.vals.repeat(g.tile);
        }
        for nd in needs.iter_mut() {
            nd.vals = nd.vals.repeat(g.tile);
        }
        n *= g.tile;
        tags.push("long_series".into());
    }
    Building { n, meta: vec![], needs, lines, tags }
}

// ---------------------------------------------------------------------------------------------
// k_exp, area strategies

/// k_exp in thousandths: 0, 1 and interior values
pub fn kexp_s() -> BoxedStrategy<f32> {
    prop_oneof![
        2 => Just(0.0f32),
        2 => Just(1.0f32),
        1 => Just(0.5f32),
        5 => (1u32..1000).prop_map(|m| m as f32 / 1000.0),
    ]
    .boxed()
}

pub fn area_s() -> BoxedStrategy<f32> {
    prop_oneof![
        2 => Just(1.0f32),
        1 => Just(0.001f32),
        1 => Just(0.01f32),
        3 => (1u32..=1_000_000).prop_map(|m| m as f32 / 100.0),
        2 => (-3i32..=6, 1u32..=999).prop_map(|(e, m)| (m as f32 / 100.0) * 10f32.powi(e)).prop_map(|a| a.max(0.001)),
    ]
    .boxed()
}
