#![allow(dead_code)]
//! vcheck: property-based checks for energiacte/cteepbd (see /verif/DESIGN.md).
//!
//! usage: vcheck <Cxx> [--tier quick|thorough]     run one property
//!        vcheck replay <file>                     re-run one saved case (plain check, no proptest)
//!        vcheck list
//! env:   VERIF_SEED (default 0), VERIF_TIER (overrides --tier)
//! exit:  0 held / 1 violation (VIOLATION line) / 2 could not decide

use std::path::Path;

use vcheck::engine::{Prop, Tier};
use vcheck::registry::{replay, run, IDS};
use vcheck::xmlcheck;

fn main() {
    let args: Vec<String> = std::env::args().skip(1).collect();
    if args.is_empty() {
        eprintln!("usage: vcheck <Cxx> [--tier quick|thorough] | replay <file> | list");
        std::process::exit(2);
    }
    let seed: u64 = std::env::var("VERIF_SEED").ok().and_then(|s| s.trim().parse::<i64>().ok()).map(|v| v as u64).unwrap_or(0);
    let mut tier = Tier::Quick;
    let mut i = 1;
    while i < args.len() {
        if args[i] == "--tier" && i + 1 < args.len() {
            tier = if args[i + 1] == "thorough" { Tier::Thorough } else { Tier::Quick };
            i += 1;
        }
        i += 1;
    }
    if let Ok(t) = std::env::var("VERIF_TIER") {
        match t.trim() {
            "thorough" => tier = Tier::Thorough,
            "quick" => tier = Tier::Quick,
            _ => {}
        }
    }
    match args[0].as_str() {
        "list" => {
            for id in IDS {
                println!("{}", id);
            }
        }
        "xmlcheck-dir" => {
            // oracle validation (not a property check): verdict of the hand-written XML checker for
            // every file of a directory, one `name OK|ERR` line each (tools/xml_crosscheck.py
            // compares them with Python's expat)
            let dir = args.get(1).map(|s| s.as_str()).unwrap_or(".");
            let mut names: Vec<_> = std::fs::read_dir(dir).map(|rd| rd.flatten().map(|e| e.path()).collect()).unwrap_or_default();
            names.sort();
            for p in names {
                let verdict = match std::fs::read(&p).ok().and_then(|b| String::from_utf8(b).ok()) {
                    Some(t) => {
                        if xmlcheck::parse(&t).is_ok() {
                            "OK"
                        } else {
                            "ERR"
                        }
                    }
                    None => "ERR",
                };
                println!("{} {}", p.file_name().map(|s| s.to_string_lossy().to_string()).unwrap_or_default(), verdict);
            }
        }
        "replay" => {
            let path = Path::new(args.get(1).map(|s| s.as_str()).unwrap_or(""));
            let txt = match std::fs::read_to_string(path) {
                Ok(t) => t,
                Err(e) => {
                    eprintln!("harness error: cannot read {}: {}", path.display(), e);
                    std::process::exit(2);
                }
            };
            let v: serde_json::Value = match serde_json::from_str(&txt) {
                Ok(v) => v,
                Err(e) => {
                    eprintln!("harness error: {} is not a replay file: {}", path.display(), e);
                    std::process::exit(2);
                }
            };
            let id = v.get("property").and_then(|s| s.as_str()).unwrap_or("").to_string();
            match replay(&id, path) {
                Some(o) => std::process::exit(o.exit),
                None => {
                    eprintln!("harness error: unknown property `{}` in {}", id, path.display());
                    std::process::exit(2);
                }
            }
        }
        id => match run(id, tier, seed) {
            Some(o) => std::process::exit(o.exit),
            None => {
                eprintln!("harness error: unknown property `{}`", id);
                std::process::exit(2);
            }
        },
    }
}

#[allow(dead_code)]
fn _unused<P: Prop>() {}
