//! C16 No input makes the library panic or the program crash or hang.

use proptest::collection::vec;
use proptest::prelude::*;
use proptest::sample::select;
use serde::{Deserialize, Serialize};
use serde_json::Value;

use cteepbd::types::RenNrenCo2;
use cteepbd::{cte, energy_performance, AsCtePlain, AsCteXml, Components, Factors, UserWF};

use crate::clidrv::*;
use crate::common::*;
use crate::engine::*;
use crate::fgen::{regulatory, resolve_user_file, user_file_g, FactorCase, LOCS};
use crate::gen::{building, BParams};
use crate::layout::{layout_s, render_layout, Layout};
use crate::{ensure, fail};

pub struct C16;

#[derive(Clone, Debug, Serialize, Deserialize)]
pub enum Corr {
    DropField(u8, u8),
    DupField(u8, u8),
    Truncate(u8, u8),
    SwapFields(u8, u8, u8),
    DropLine(u8),
    DupLine(u8),
    SwapLines(u8, u8),
    Replace(u8, u8, String),
    AppendValue(u8, String),
    RemoveLastValue(u8),
    InsertRaw(u8, String),
    CrOnly,
    Upper(u8),
    Lower(u8),
    /// replace one *numeric value* of a line (not the id) by a special but parseable number: the file
    /// is still accepted and the odd value travels through the whole computation
    Special(u8, u8, String),
    /// the same for every numeric value of a line
    #[serde(alias = "SpecialAll")]
    SpecialLine(u8, String),
}

#[derive(Clone, Debug, Serialize, Deserialize)]
pub enum Text {
    /// a valid rendering, corrupted
    Corrupted { lines: Vec<String>, ops: Vec<Corr> },
    /// random sequence over the format's dictionary
    Soup(Vec<String>),
}

#[derive(Clone, Debug, Serialize, Deserialize)]
pub struct Case {
    pub comps: Text,
    /// None = a location
    pub factors: Option<Text>,
    pub loc: String,
    pub k: f32,
    pub area: f32,
    pub lm: bool,
    pub red1: Option<[f32; 3]>,
    pub red2: Option<[f32; 3]>,
    /// also run the command-line program
    pub cli: Option<CliOpts>,
}

#[derive(Clone, Debug, Serialize, Deserialize)]
pub struct CliOpts {
    pub kexp: Option<String>,
    pub arearef: Option<String>,
    pub red1: Option<[String; 3]>,
    pub loc_opt: Option<String>,
    pub outputs: bool,
    pub bad_output_dir: bool,
    pub missing_components_file: bool,
    pub verbose: u8,
    pub no_strip: bool,
    /// no -c option at all (the program then only handles the factors)
    #[serde(default)]
    pub no_components: bool,
    #[serde(default)]
    pub license: bool,
    #[serde(default)]
    pub red2: Option<[String; 3]>,
    /// one output option (index into --json --xml --txt --oc --of) gets this path instead of a plain file name:
    /// empty, a directory, the root, a path that another output or the input already uses, ...
    #[serde(default)]
    pub odd_path: Option<(u8, String)>,
}

const NUM_TOKENS: [&str; 26] = [
    "NaN", "inf", "-inf", "-0", "1e39", "1e-46", "", " ", "+", "0x10", "١٢", "1,5", "1.2.3", "--1", "1e", "e5", "∞", "999999999999999999999", "-1", "0", "1", "0.01", "3.4e38", "-3.4e38", "1_000", ".",
];
const TAG_TOKENS: [&str; 40] = [
    "CONSUMO", "PRODUCCION", "AUX", "SALIDA", "DEMANDA", "consumo", "CONSUMO ", "CONSUM", "XX", "ELECTRICIDAD", "EL_INSITU", "EL_COGEN", "TERMOSOLAR", "EAMBIENTE", "INSITU", "RED", "COGEN", "A", "B", "ACS", "CAL", "REF", "VEN", "ILU", "NEPB",
    "SUMINISTRO", "A_RED", "A_NEPB", "GASNATURAL", "BIOMASA", "RED1", "RED2", "0", "-1", "1", "2147483648", "-2147483649", "é", "", "vector",
];
const RAW_LINES: [&str; 26] = [
    "#META",
    "#META sin dos puntos",
    "#METAé: x",
    "#METAx:y",
    "#CTE_",
    "#CTE_é",
    "#",
    "# comentario",
    "DEMANDA, ACS, 1, 2, 3, 4, 5, 6, 7",
    "DEMANDA, ACS, 1",
    "DEMANDA, NEPB, 1",
    "DEMANDA",
    "0, DEMANDA, ACS, 1",
    "0, SALIDA, NEPB, 1",
    "SALIDA, ACS, 1",
    "0, SALIDA, ACS",
    "\u{0}",
    "vector,tipo",
    "vector",
    ",,,,",
    ",",
    "0, AUX",
    "AUX",
    "0, CONSUMO, ACS, ELECTRICIDAD",
    "0, PRODUCCION, EL_COGEN, 5, 5, 5, 5, 5, 5, 5, 5, 5, 5, 5, 5, 5, 5, 5, 5, 5, 5, 5, 5, 5, 5, 5, 5, 5, 5, 5, 5, 5, 5",
    "\u{feff}0, CONSUMO, ACS, GASNATURAL, 1",
];

/// metadata the command-line program interprets, with values of every shape its parsers accept or
/// must reject (plain, parenthesised and braces forms of a factor triple, truncated, non-numeric)
const META_KEYS: [&str; 8] = ["CTE_RED1", "CTE_RED2", "CTE_AREAREF", "CTE_KEXP", "CTE_LOCALIZACION", "Area_ref", "kexp", "Localizacion"];
const META_VALUES: [&str; 30] = [
    "0.5, 1.1, 0.2", "(0.5, 1.1, 0.2)", "{ ren: 0.5, nren: 1.1, co2: 0.2 }", "{ ren: 0.0, nren: 1.3, co2: 0.3, }", "{ ren: 0.0, nren", "{ 0.0, 1.3, 0.3 }", "{}", "{", "}", "{ ren: x }", "{ren:1}", "(", "()", "1, 2", "1, 2, 3, 4",
    "a, b, c", ",,", "", "NaN, NaN, NaN", "inf", "1e39, 0, 0", "-1, -1, -1", "PENINSULA", "peninsula", "100.5", "0", "1", "0.5", "-0.0", "1:2:3",
];

const SPECIAL_VALUES: [&str; 14] = ["NaN", "inf", "-inf", "-0", "1e39", "-1e39", "1e-46", "-1", "-4.5", "-1e9", "3.4e38", "-3.4e38", "0", "1e30"];

fn corr_s() -> BoxedStrategy<Corr> {
    let tok = prop_oneof![select(NUM_TOKENS.to_vec()), select(TAG_TOKENS.to_vec())].prop_map(|s| s.to_string());
    prop_oneof![
        (any::<u8>(), any::<u8>()).prop_map(|(a, b)| Corr::DropField(a, b)),
        (any::<u8>(), any::<u8>()).prop_map(|(a, b)| Corr::DupField(a, b)),
        (any::<u8>(), any::<u8>()).prop_map(|(a, b)| Corr::Truncate(a, b)),
        (any::<u8>(), any::<u8>(), any::<u8>()).prop_map(|(a, b, c)| Corr::SwapFields(a, b, c)),
        any::<u8>().prop_map(Corr::DropLine),
        any::<u8>().prop_map(Corr::DupLine),
        (any::<u8>(), any::<u8>()).prop_map(|(a, b)| Corr::SwapLines(a, b)),
        (any::<u8>(), any::<u8>(), tok.clone()).prop_map(|(a, b, t)| Corr::Replace(a, b, t)),
        (any::<u8>(), tok.clone()).prop_map(|(a, t)| Corr::Replace(a, 255, t)),
        (any::<u8>(), tok).prop_map(|(a, t)| Corr::AppendValue(a, t)),
        any::<u8>().prop_map(Corr::RemoveLastValue),
        (any::<u8>(), select(RAW_LINES.to_vec())).prop_map(|(a, t)| Corr::InsertRaw(a, t.to_string())),
        (any::<u8>(), select(META_KEYS.to_vec()), select(META_VALUES.to_vec())).prop_map(|(a, k, v)| Corr::InsertRaw(a, format!("#META {}: {}", k, v))),
        (any::<u8>(), select(META_KEYS.to_vec()), select(META_VALUES.to_vec())).prop_map(|(a, k, v)| Corr::InsertRaw(a, format!("#META {}: {}", k, v))),
        (any::<u8>(), "[ -~]{0,40}").prop_map(|(a, t)| Corr::InsertRaw(a, t)),
        Just(Corr::CrOnly),
        (any::<u8>(), any::<u8>(), select(SPECIAL_VALUES.to_vec())).prop_map(|(a, b, t)| Corr::Special(a, b, t.to_string())),
        (any::<u8>(), any::<u8>(), select(SPECIAL_VALUES.to_vec())).prop_map(|(a, b, t)| Corr::Special(a, b, t.to_string())),
        (any::<u8>(), any::<u8>(), select(SPECIAL_VALUES.to_vec())).prop_map(|(a, b, t)| Corr::Special(a, b, t.to_string())),
        (any::<u8>(), any::<u8>(), select(SPECIAL_VALUES.to_vec())).prop_map(|(a, b, t)| Corr::Special(a, b, t.to_string())),
        (any::<u8>(), select(SPECIAL_VALUES.to_vec())).prop_map(|(a, t)| Corr::SpecialLine(a, t.to_string())),
        (any::<u8>(), select(SPECIAL_VALUES.to_vec())).prop_map(|(a, t)| Corr::SpecialLine(a, t.to_string())),
        any::<u8>().prop_map(Corr::Upper),
        any::<u8>().prop_map(Corr::Lower),
    ]
    .boxed()
}

fn idx(k: u8, len: usize) -> usize {
    if len == 0 {
        0
    } else {
        (k as usize * len) >> 8
    }
}

pub fn apply(lines: &[String], ops: &[Corr]) -> String {
    let mut ls: Vec<String> = lines.to_vec();
    let mut sep = "\n";
    for op in ops {
        let n = ls.len();
        let fields = |s: &str| -> Vec<String> { s.split(',').map(|x| x.to_string()).collect() };
        match op {
            Corr::DropField(l, f) if n > 0 => {
                let i = idx(*l, n);
                let mut fs = fields(&ls[i]);
                if !fs.is_empty() {
                    fs.remove(idx(*f, fs.len()));
                }
                ls[i] = fs.join(",");
            }
            Corr::DupField(l, f) if n > 0 => {
                let i = idx(*l, n);
                let mut fs = fields(&ls[i]);
                let j = idx(*f, fs.len());
                let x = fs[j].clone();
                fs.insert(j, x);
                ls[i] = fs.join(",");
            }
            Corr::Truncate(l, f) if n > 0 => {
                let i = idx(*l, n);
                let fs = fields(&ls[i]);
                ls[i] = fs[..idx(*f, fs.len() + 1).min(fs.len())].join(",");
            }
            Corr::SwapFields(l, a, b) if n > 0 => {
                let i = idx(*l, n);
                let mut fs = fields(&ls[i]);
                let (x, y) = (idx(*a, fs.len()), idx(*b, fs.len()));
                fs.swap(x, y);
                ls[i] = fs.join(",");
            }
            Corr::DropLine(l) if n > 0 => {
                ls.remove(idx(*l, n));
            }
            Corr::DupLine(l) if n > 0 => {
                let x = ls[idx(*l, n)].clone();
                ls.insert(idx(*l, n), x);
            }
            Corr::SwapLines(a, b) if n > 0 => {
                let (x, y) = (idx(*a, n), idx(*b, n));
                ls.swap(x, y);
            }
            Corr::Replace(l, f, t) if n > 0 => {
                let i = idx(*l, n);
                let mut fs = fields(&ls[i]);
                // 255 = the last field (a value), otherwise any field
                let j = if *f == 255 { fs.len() - 1 } else { idx(*f, fs.len()) };
                fs[j] = format!(" {}", t);
                ls[i] = fs.join(",");
            }
            Corr::Special(l, f, t) if n > 0 => {
                let i = idx(*l, n);
                let (body, comment) = match ls[i].find('#') {
                    Some(p) => (ls[i][..p].to_string(), ls[i][p..].to_string()),
                    None => (ls[i].clone(), String::new()),
                };
                let mut fs = fields(&body);
                let numeric: Vec<usize> = (1..fs.len()).filter(|j| fs[*j].trim().parse::<f32>().is_ok()).collect();
                if !numeric.is_empty() {
                    fs[numeric[idx(*f, numeric.len())]] = format!(" {} ", t);
                    ls[i] = format!("{}{}", fs.join(","), comment);
                }
            }
            Corr::SpecialLine(l, t) if n > 0 => {
                let i = idx(*l, n);
                let (body, comment) = match ls[i].find('#') {
                    Some(p) => (ls[i][..p].to_string(), ls[i][p..].to_string()),
                    None => (ls[i].clone(), String::new()),
                };
                let mut fs = fields(&body);
                for j in 1..fs.len() {
                    if fs[j].trim().parse::<f32>().is_ok() {
                        fs[j] = format!(" {}", t);
                    }
                }
                ls[i] = format!("{}{}", fs.join(","), comment);
            }
            Corr::AppendValue(l, t) if n > 0 => {
                let i = idx(*l, n);
                ls[i] = format!("{}, {}", ls[i], t);
            }
            Corr::RemoveLastValue(l) if n > 0 => {
                let i = idx(*l, n);
                let mut fs = fields(&ls[i]);
                fs.pop();
                ls[i] = fs.join(",");
            }
            Corr::InsertRaw(l, t) => {
                let i = idx(*l, n + 1).min(n);
                ls.insert(i, t.clone());
            }
            Corr::CrOnly => sep = "\r",
            Corr::Upper(l) if n > 0 => {
                let i = idx(*l, n);
                ls[i] = ls[i].to_uppercase();
            }
            Corr::Lower(l) if n > 0 => {
                let i = idx(*l, n);
                ls[i] = ls[i].to_lowercase();
            }
            _ => {}
        }
    }
    ls.join(sep)
}

impl Text {
    pub fn render(&self) -> String {
        match self {
            Text::Corrupted { lines, ops } => apply(lines, ops),
            Text::Soup(toks) => toks.concat(),
        }
    }
}

fn soup_s() -> BoxedStrategy<Text> {
    let tok = prop_oneof![
        4 => select(TAG_TOKENS.to_vec()).prop_map(|s| s.to_string()),
        3 => select(NUM_TOKENS.to_vec()).prop_map(|s| s.to_string()),
        6 => select(vec![",", ", ", "\n", " ", "#", ":", "\r\n", "\t", "#META ", "#CTE_", "\u{feff}", "\r"]).prop_map(|s| s.to_string()),
        1 => "[ -~]{0,6}",
        1 => (0u32..100_000).prop_map(|c| format!("{}.{:02}", c / 100, c % 100)),
    ];
    vec(tok, 0..60).prop_map(Text::Soup).boxed()
}

/// building() without the soundness restrictions: the resolver's guarantees are undone at random
fn wild_building_lines(quick: bool) -> BoxedStrategy<Vec<String>> {
    let mut p = BParams::std(quick);
    p.max_steps = 6;
    p.with_needs = true;
    let mut p2 = p.clone();
    p2.cogen_heavy = true;
    p2.aux_non_epb = true;
    (prop_oneof![building(&p), building(&p2)], layout_s(), any::<u8>(), any::<u8>())
        .prop_map(|(mut b, lay, drop_kind, which)| {
            // undo a guarantee: drop all lines of one kind chosen at random (cogeneration input,
            // SALIDA, CONSUMO of one system, ...)
            match drop_kind % 6 {
                0 => b.lines.retain(|l| !matches!(l.kind, crate::gen::Kind::Used { srv: crate::dom::Srv::COGEN, .. })),
                1 => b.lines.retain(|l| !matches!(l.kind, crate::gen::Kind::Out { .. })),
                2 => {
                    let id = b.lines.get(which as usize % b.lines.len().max(1)).map(|l| l.id).unwrap_or(0);
                    b.lines.retain(|l| !(l.id == id && matches!(l.kind, crate::gen::Kind::Used { .. })));
                }
                _ => {}
            }
            render_layout(&b, &lay).lines().map(|s| s.to_string()).collect::<Vec<String>>()
        })
        .boxed()
}

/// valid files from the DHW grammar (reach the DHW indicator's deep branches: biomass with SALIDA,
/// mixed carriers, PV, auxiliaries) plus an optional cogeneration pair
fn dhw_lines() -> BoxedStrategy<Vec<String>> {
    (crate::dhw::dhw_case(6), any::<bool>())
        .prop_map(|(d, cogen)| {
            let mut b = d.building();
            if cogen {
                let n = d.n;
                b.lines.push(crate::gen::Line { id: 30, kind: crate::gen::Kind::Prod { src: crate::dom::Src::EL_COGEN }, vals: vec![5.0; n], comment: String::new() });
                b.lines.push(crate::gen::Line { id: 30, kind: crate::gen::Kind::Used { srv: crate::dom::Srv::COGEN, car: crate::dom::Car::BIOMASA }, vals: vec![12.0; n], comment: String::new() });
            }
            b.render().lines().map(|s| s.to_string()).collect::<Vec<String>>()
        })
        .boxed()
}

fn comps_text_s(quick: bool) -> BoxedStrategy<Text> {
    prop_oneof![
        6 => (wild_building_lines(quick), vec(corr_s(), 0..=3)).prop_map(|(lines, ops)| Text::Corrupted { lines, ops }),
        2 => (dhw_lines(), vec(corr_s(), 0..=2)).prop_map(|(lines, ops)| Text::Corrupted { lines, ops }),
        2 => soup_s(),
        1 => Just(Text::Soup(vec![])),
    ]
    .boxed()
}

fn factors_text_s() -> BoxedStrategy<Option<Text>> {
    let valid = prop_oneof![
        user_file_g().prop_map(|g| resolve_user_file(&g, &[], true).file_text().unwrap()),
        select(LOCS.to_vec()).prop_map(|l| cte::CTE_LOCWF_RITE2014[l].to_string()),
    ]
    .prop_map(|t| t.lines().map(|s| s.to_string()).collect::<Vec<String>>());
    let extra = select(vec![
        "ELECTRICIDAD, COGEN, A_RED, A, 1, 2, 3",
        "ELECTRICIDAD, COGEN, SUMINISTRO, A, 0, 0, 0",
        "GASNATURAL, INSITU, A_RED, B, 1, 1, 1",
        "ELECTRICIDAD, RED, SUMINISTRO, B, 1, 1, 1",
        "ELECTRICIDAD, RED, SUMINISTRO, A",
        "#META CTE_PERIMETRO: NEARBY",
    ]);
    prop_oneof![
        5 => Just(None),
        4 => (valid, vec(prop_oneof![3 => corr_s(), 1 => (any::<u8>(), extra).prop_map(|(a, t)| Corr::InsertRaw(a, t.to_string()))], 0..=3)).prop_map(|(lines, ops)| Some(Text::Corrupted { lines, ops })),
        1 => soup_s().prop_map(Some),
    ]
    .boxed()
}

fn wild_f32() -> BoxedStrategy<f32> {
    prop_oneof![
        4 => (0u32..=1000).prop_map(|m| m as f32 / 1000.0),
        2 => (1u32..=1_000_000).prop_map(|m| m as f32 / 100.0),
        1 => select(vec![f32::NAN, f32::INFINITY, f32::NEG_INFINITY, -0.0, -1.0, 0.0, 1e-3, 1e-45, f32::MAX, f32::MIN, 1e38, 0.00099, 2.0]),
        1 => any::<f32>(),
    ]
    .boxed()
}

fn cli_opts_s() -> BoxedStrategy<CliOpts> {
    let weird = || {
        prop_oneof![
            3 => select(NUM_TOKENS.to_vec()).prop_map(|s| s.to_string()),
            2 => select(vec!["0.5", "1", "0", "100", "0.001", "0.0011", "abc", "１", "1e400", "-1e-400", "0.5 ", " 1", "1\n", "=", "--", "-k", "'1'"]).prop_map(|s| s.to_string()),
            1 => "[ -~]{0,8}",
        ]
    };
    (
        proptest::option::weighted(0.4, prop_oneof![5 => select(vec!["0", "1", "0.5", "0.25"]).prop_map(|s| s.to_string()), 4 => weird()]),
        proptest::option::weighted(0.4, prop_oneof![5 => select(vec!["1", "100", "0.0011", "250.5"]).prop_map(|s| s.to_string()), 4 => weird()]),
        proptest::option::weighted(0.2, prop_oneof![3 => (select(vec!["0", "1.3", "0.5"]), select(vec!["0", "1.3", "0.5"]), select(vec!["0", "0.3"])).prop_map(|(a, b, c)| (a.to_string(), b.to_string(), c.to_string())), 2 => (weird(), weird(), weird())]),
        proptest::option::weighted(0.3, select(vec!["PENINSULA", "CANARIAS", "MADRID", "", "peninsula"]).prop_map(|s| s.to_string())),
        any::<bool>(),
        prop::bool::weighted(0.2),
        prop::bool::weighted(0.05),
        0u8..4,
        any::<bool>(),
        (
            prop::bool::weighted(0.08),
            prop::bool::weighted(0.03),
            proptest::option::weighted(0.1, (weird(), weird(), weird())),
            proptest::option::weighted(0.2, (0u8..5, select(vec!["", "", "/", "/", ".", "..", "./", "sub/", "out.json", "out.xml", "comp.csv", "fact.csv", "a/../b.json", "ñandú.json", " ", "no/existe/x.txt", "/dev/null", "/dev/full", "/proc/nonexistent/x"]).prop_map(|s| s.to_string()))),
        ),
    )
        .prop_map(|(kexp, arearef, red1, loc_opt, outputs, bad_output_dir, missing_components_file, verbose, no_strip, (no_components, license, red2, odd_path))| CliOpts {
            kexp,
            arearef,
            red1: red1.map(|(a, b, c)| [a, b, c]),
            loc_opt,
            outputs,
            bad_output_dir,
            missing_components_file,
            verbose,
            no_strip,
            no_components,
            license,
            red2: red2.map(|(a, b, c)| [a, b, c]),
            odd_path,
        })
        .boxed()
}

fn triple_wild() -> BoxedStrategy<Option<[f32; 3]>> {
    proptest::option::weighted(0.3, (wild_f32(), wild_f32(), wild_f32()).prop_map(|(a, b, c)| [a, b, c])).boxed()
}

/// The in-process chain; a panic anywhere is reported by the engine (catch_unwind around `check`).
/// Returns (accepted, reached_components).
pub fn chain(comps_text: &str, factors_text: Option<&str>, loc: &str, k: f32, area: f32, lm: bool, red1: Option<[f32; 3]>, red2: Option<[f32; 3]>) -> (bool, bool) {
    let rn = |t: Option<[f32; 3]>| t.map(|a| RenNrenCo2::new(a[0], a[1], a[2]));
    let user = UserWF { red1: rn(red1), red2: rn(red2) };
    let factors = match factors_text {
        Some(t) => {
            // raw parse and Display / FromStr of whatever parses
            if let Ok(raw) = t.parse::<Factors>() {
                let _ = raw.to_string().parse::<Factors>();
                let _ = raw.to_xml();
                let _ = raw.to_nearby(&cteepbd::types::Carrier::NRBY);
            }
            cte::wfactors_from_str(t, user, cte::CTE_USERWF)
        }
        None => cte::wfactors_from_loc(loc, &cte::CTE_LOCWF_RITE2014, user, cte::CTE_USERWF),
    };
    let comps = comps_text.parse::<Components>();
    let reached = comps.is_ok() || comps_text.lines().any(|l| !l.trim().is_empty() && !l.trim().starts_with('#') && l.parse::<Components>().map(|c| !c.data.is_empty()).unwrap_or(false));
    let comps = match comps {
        Ok(c) => c,
        Err(e) => {
            let _ = e.to_string();
            return (false, reached);
        }
    };
    {
        use cteepbd::types::MetaVec;
        for k in META_KEYS {
            let _ = comps.get_meta(k);
            let _ = comps.get_meta_f32(k);
            let _ = comps.get_meta_rennren(k);
            let _ = comps.has_meta(k);
        }
        for m in &comps.meta {
            let _ = m.value.parse::<RenNrenCo2>();
            let _ = m.to_xml();
            let _ = m.to_string().parse::<cteepbd::types::Meta>();
        }
    }
    let _ = comps.clone().normalize();
    let printed = comps.to_string();
    let _ = printed.parse::<Components>();
    let _ = comps.to_xml();
    let _ = comps.num_steps();
    let _ = comps.available_carriers();
    let factors = match factors {
        Ok(f) => f,
        Err(e) => {
            let _ = e.to_string();
            return (false, reached);
        }
    };
    let _ = factors.clone().normalize(&cte::CTE_USERWF);
    let stripped = factors.clone().strip(&comps);
    let mut accepted = false;
    for f in [&factors, &stripped] {
        match energy_performance(&comps, f, k, area, lm) {
            Ok(ep) => {
                accepted = true;
                let ep = cte::incorpora_demanda_renovable_acs_nrb(ep);
                let _ = cte::fraccion_renovable_acs_nrb(&ep);
                let _ = ep.to_plain();
                let _ = ep.to_xml();
                if let Ok(js) = serde_json::to_string(&ep) {
                    let _ = serde_json::from_str::<cteepbd::types::EnergyPerformance>(&js);
                }
                let _ = serde_json::to_string_pretty(&ep);
            }
            Err(e) => {
                let _ = e.to_string();
            }
        }
    }
    (accepted, reached)
}

impl Prop for C16 {
    type Case = Case;
    const ID: &'static str = "C16";
    fn rule() -> String {
        "cases = (1) corruption grammar over rendered files from building() without its soundness restrictions and over valid factor files (drop / duplicate / truncate / swap fields and lines, replace a field by NaN, inf, -0, 1e39, 1e-46, empty, +, 0x10, non-ASCII digits, unknown or wrong-case tags, change one value count, insert raw lines such as #META without colon, multi-byte text after the prefix, lone #, NUL, DEMANDA of another length, SALIDA first / without id, CR-only line ends), \
         (2) token soups over the format's dictionary, (3) the empty file; options k_exp, area, RED1, RED2 as arbitrary f32 incl. NaN / inf / negative / subnormal; \
         in-process chain parse -> normalize again -> Display/FromStr -> wfactors_from_str/loc -> strip -> energy_performance (full and stripped set) -> DHW indicator -> to_plain / to_xml / JSON (and read back): any panic is a violation; \
         about 5 % of the cases also run the binary with arbitrary UTF-8 option strings, unwritable output paths and missing input files: exit status in {0,1,64,65,73,74}, no signal, no panic message, stderr non-empty on failure, 20 s watchdog (re-run once alone before a hang is believed); \
         thorough tier adds two libFuzzer campaigns (fz_components, fz_factors) whose crashes are re-confirmed here; non-trivial = at least one line parses into a component, or the input is accepted; distinct by case hash"
            .into()
    }
    fn assumptions() -> Vec<String> {
        vec![
            "files <= 4 KiB; argument strings are valid UTF-8 (a non-UTF-8 argv makes clap 2 panic; outside the claim, see DESIGN C16)".into(),
            "debug build of the CLI; a broken stdout pipe is an environment fault, the driver always reads all output".into(),
        ]
    }
    fn cases(tier: Tier) -> u32 {
        tier.pick(12_000, 1_500_000)
    }
    fn strategy(tier: Tier) -> BoxedStrategy<Case> {
        let quick = tier == Tier::Quick;
        let cli_p = tier.pick(0.05, 0.04);
        (
            comps_text_s(quick),
            factors_text_s(),
            select(vec!["PENINSULA", "BALEARES", "CANARIAS", "CEUTAMELILLA", "PENINSULA", "CANARIAS", "MADRID", ""]),
            wild_f32(),
            wild_f32(),
            any::<bool>(),
            triple_wild(),
            triple_wild(),
            proptest::option::weighted(cli_p, cli_opts_s()),
        )
            .prop_map(|(comps, factors, loc, k, area, lm, red1, red2, cli)| Case { comps, factors, loc: loc.to_string(), k, area, lm, red1, red2, cli })
            .boxed()
    }
    fn describe(c: &Case) -> Value {
        serde_json::json!({
            "components_file": c.comps.render(),
            "factors_file": c.factors.as_ref().map(|t| t.render()),
            "location": c.loc, "k_exp": format!("{:?}", c.k), "area": format!("{:?}", c.area), "load_matching": c.lm,
            "red1": format!("{:?}", c.red1), "red2": format!("{:?}", c.red2),
            "cli": c.cli.as_ref().map(|o| format!("{:?}", o)),
        })
    }
    fn extra(tier: Tier, seed: u64, ev: &mut std::collections::BTreeMap<String, Value>) -> Result<(), (Failure, Value)> {
        if tier == Tier::Thorough {
            fuzz_campaigns(seed, ev)
        } else {
            Ok(())
        }
    }
    fn check(c: &Case, ctx: &mut Ctx) -> CheckResult {
        let ct = c.comps.render();
        let ft = c.factors.as_ref().map(|t| t.render());
        // the engine wraps this call in catch_unwind: a panic becomes failure `panic` with its location
        let (accepted, reached) = chain(&ct, ft.as_deref(), &c.loc, c.k, c.area, c.lm, c.red1, c.red2);
        ctx.label(if accepted { "accepted" } else { "rejected" });
        match &c.comps {
            Text::Corrupted { ops, .. } => ctx.label(format!("corruptions:{}", ops.len())),
            Text::Soup(_) => ctx.label("soup"),
        }
        if accepted || reached {
            ctx.nontrivial = true;
        }
        if let Some(o) = &c.cli {
            check_cli(c, o, &ct, ft.as_deref(), ctx)?;
            ctx.label("cli_run");
        }
        Ok(())
    }
}

pub fn cli_argv(c: &Case, o: &CliOpts, has_factors_file: bool) -> Vec<String> {
    let mut a: Vec<String> = vec![];
    if !o.no_components {
        a.push("-c".into());
        a.push(if o.missing_components_file { "no_existe.csv".into() } else { "comp.csv".into() });
    }
    if o.license {
        a.push("--licencia".into());
    }
    if let Some(t) = &o.red2 {
        a.push("--red2".into());
        for x in t {
            a.push(x.clone());
        }
    }
    if has_factors_file {
        a.push("-f".into());
        a.push("fact.csv".into());
    } else if let Some(l) = &o.loc_opt {
        a.push("-l".into());
        a.push(l.clone());
    } else if !c.loc.is_empty() && c.loc != "MADRID" {
        a.push("-l".into());
        a.push(c.loc.clone());
    }
    if let Some(k) = &o.kexp {
        a.push(format!("--kexp={}", k));
    }
    if let Some(v) = &o.arearef {
        a.push(format!("--arearef={}", v));
    }
    if let Some(t) = &o.red1 {
        a.push("--red1".into());
        for x in t {
            a.push(x.clone());
        }
    }
    if c.lm {
        a.push("--load_matching".into());
    }
    if o.no_strip {
        a.push("-F".into());
    }
    for _ in 0..o.verbose {
        a.push("-v".into());
    }
    let outs = [("--json", "out.json"), ("--xml", "out.xml"), ("--txt", "out.txt"), ("--oc", "oc.csv"), ("--of", "of.csv")];
    if o.outputs {
        let dir = if o.bad_output_dir { "no/existe/" } else { "" };
        for (i, (flag, name)) in outs.iter().enumerate() {
            a.push(flag.to_string());
            match &o.odd_path {
                Some((j, p)) if *j as usize == i => a.push(p.clone()),
                _ => a.push(format!("{}{}", dir, name)),
            }
        }
    } else if let Some((j, p)) = &o.odd_path {
        a.push(outs[*j as usize % 5].0.to_string());
        a.push(p.clone());
    }
    a
}

fn check_cli(c: &Case, o: &CliOpts, ct: &str, ft: Option<&str>, ctx: &mut Ctx) -> CheckResult {
    let mut files = vec![("comp.csv".to_string(), ct.as_bytes().to_vec())];
    if let Some(f) = ft {
        files.push(("fact.csv".to_string(), f.as_bytes().to_vec()));
    }
    let args = cli_argv(c, o, ft.is_some());
    // NUL cannot be passed in argv
    if args.iter().any(|a| a.contains('\0')) {
        return Ok(());
    }
    // thorough tier: the same invocation also through the release-profile binary (panic = "abort")
    if let Some(rel) = release_cli_path() {
        let rr = run_bin(&rel, &args, &files, std::time::Duration::from_secs(30)).map_err(|x| Failure::new("harness", x))?;
        let res = (|| -> CheckResult {
            ensure!(!rr.timed_out, "cli_hang", "release build: cteepbd {:?} did not terminate: {}", args, rr.summary());
            ensure!(rr.signal.is_none(), "cli_signal", "release build: cteepbd {:?} ended by a signal: {}", args, rr.summary());
            ensure!(matches!(rr.status, Some(0 | 1 | 64 | 65 | 73 | 74)), "cli_status", "release build: cteepbd {:?} ended with the undocumented status {:?}: {}", args, rr.status, rr.summary());
            Ok(())
        })();
        rr.cleanup();
        res?;
        ctx.label("cli_release_run");
    }
    let run = run_cli_checked(&args, &files).map_err(|x| Failure::new("harness", x))?;
    let r = (|| -> CheckResult {
        ensure!(!run.timed_out, "cli_hang", "cteepbd {:?} did not terminate: {}", args, run.summary());
        ensure!(run.signal.is_none(), "cli_signal", "cteepbd {:?} ended by a signal: {}", args, run.summary());
        ensure!(!run.stderr.contains("panicked at") && !run.stdout.contains("panicked at"), "cli_panic", "cteepbd {:?} panicked: {}", args, run.summary());
        let st = match run.status {
            Some(s) => s,
            None => fail!("cli_signal", "no exit status: {}", run.summary()),
        };
        ensure!([0, 1, 64, 65, 73, 74].contains(&st), "cli_status", "cteepbd {:?} ended with the undocumented status {}: {}", args, st, run.summary());
        if st != 0 {
            ensure!(!run.stderr.trim().is_empty(), "cli_error_reported", "cteepbd {:?} ended with status {} and an empty stderr", args, st);
        }
        ctx.label(format!("cli_status:{}", st));
        Ok(())
    })();
    run.cleanup();
    r
}

pub fn unused(_: Layout, _: FactorCase) {
    let _ = regulatory();
    let _ = inputs;
}

// ---------------------------------------------------------------------------------------------
// engine E2: libFuzzer campaigns (thorough tier only)

pub const FUZZ_COMPS: &str = "0, CONSUMO, CAL, RED1, 10, 20\n0, CONSUMO, ACS, ELECTRICIDAD, 30, 10\n1, CONSUMO, ACS, EAMBIENTE, 60, 20\n0, PRODUCCION, EL_INSITU, 20, 40\n0, PRODUCCION, EL_COGEN, 5, 5\n0, CONSUMO, COGEN, GASNATURAL, 12, 12\n0, CONSUMO, NEPB, ELECTRICIDAD, 3, 30\n1, PRODUCCION, TERMOSOLAR, 5, 5\n";

/// decode a libFuzzer input of `fz_components` / `fz_factors` into a Case of this property
pub fn case_from_artifact(target: &str, data: &[u8]) -> Option<Case> {
    if data.len() < 2 {
        return None;
    }
    let o = data[0];
    let text = std::str::from_utf8(&data[1..]).ok()?.to_string();
    if target == "fz_components" {
        Some(Case {
            comps: Text::Soup(vec![text]),
            factors: None,
            loc: LOCS[((o >> 5) & 3) as usize].to_string(),
            k: [0.0f32, 1.0, 0.5, f32::NAN][(o & 3) as usize],
            area: [1.0f32, 100.0, 0.001, f32::INFINITY][((o >> 2) & 3) as usize],
            lm: o & 16 != 0,
            red1: None,
            red2: None,
            cli: None,
        })
    } else {
        Some(Case {
            comps: Text::Soup(vec![FUZZ_COMPS.to_string()]),
            factors: Some(Text::Soup(vec![text])),
            loc: "PENINSULA".into(),
            k: 0.5,
            area: 10.0,
            lm: o & 4 != 0,
            red1: if o & 1 != 0 { Some([0.5, 0.6, 0.1]) } else { None },
            red2: if o & 2 != 0 { Some([f32::NAN, -1.0, 1e30]) } else { None },
            cli: None,
        })
    }
}

pub fn fuzz_campaigns(seed: u64, ev: &mut std::collections::BTreeMap<String, Value>) -> Result<(), (Failure, Value)> {
    use std::process::Command;
    let build_dir = "/verif/.build/fuzz";
    let secs: u64 = std::env::var("VERIF_FUZZ_SECS").ok().and_then(|s| s.parse().ok()).unwrap_or(240);
    let note = |ev: &mut std::collections::BTreeMap<String, Value>, s: String| {
        ev.insert("libfuzzer".into(), serde_json::json!({"status": "inconclusive", "why": s}));
    };
    // (only this property's byte-level targets: fz_prop belongs to engine E4 and has its own build)
    for target in ["fz_components", "fz_factors"] {
        let b = Command::new("cargo")
            .args(["+nightly", "fuzz", "build", "--fuzz-dir", "/verif/fuzz", "--target-dir", build_dir, target])
            .env("CARGO_NET_OFFLINE", "true")
            .current_dir("/verif/fuzz")
            .output();
        match b {
            Ok(o) if o.status.success() => {}
            Ok(o) => {
                note(ev, format!("cargo +nightly fuzz build failed: {}", String::from_utf8_lossy(&o.stderr).chars().rev().take(400).collect::<String>().chars().rev().collect::<String>()));
                return Ok(());
            }
            Err(e) => {
                note(ev, format!("cargo +nightly fuzz not runnable: {}", e));
                return Ok(());
            }
        }
    }
    let mut children = vec![];
    for (target, corpus) in [("fz_components", "components"), ("fz_factors", "factors")] {
        let work = format!("/verif/.build/fuzz-work/{}", target);
        let _ = std::fs::remove_dir_all(&work);
        let _ = std::fs::create_dir_all(format!("{}/corpus", work));
        let _ = std::fs::create_dir_all(format!("{}/artifacts", work));
        if let Ok(rd) = std::fs::read_dir(format!("/verif/corpus/{}", corpus)) {
            for e in rd.flatten() {
                let _ = std::fs::copy(e.path(), format!("{}/corpus/{}", work, e.file_name().to_string_lossy()));
            }
        }
        let bin = format!("{}/x86_64-unknown-linux-gnu/release/{}", build_dir, target);
        let child = Command::new(&bin)
            .args([
                format!("{}/corpus", work),
                format!("-seed={}", (seed % 0xFFFF_FFFF) + 1),
                format!("-max_total_time={}", secs),
                "-max_len=4096".into(),
                "-len_control=0".into(),
                "-fork=7".into(),
                "-ignore_crashes=0".into(),
                "-dict=/verif/fuzz/cteepbd.dict".into(),
                format!("-artifact_prefix={}/artifacts/", work),
            ])
            .current_dir(&work)
            .stdout(std::process::Stdio::piped())
            .stderr(std::process::Stdio::piped())
            .spawn();
        match child {
            Ok(c) => children.push((target, work, c)),
            Err(e) => {
                note(ev, format!("cannot start {}: {}", bin, e));
                return Ok(());
            }
        }
    }
    let mut report = serde_json::Map::new();
    let mut failure: Option<(Failure, Value)> = None;
    for (target, work, child) in children {
        let out = child.wait_with_output().map_err(|e| (Failure::new("harness", e.to_string()), Value::Null))?;
        let log = String::from_utf8_lossy(&out.stderr).to_string();
        // "#123456: cov: ..." lines of the fork mode; the last one carries the total
        let execs = log.lines().rev().find_map(|l| l.strip_prefix('#').and_then(|r| r.split(':').next()).and_then(|n| n.trim().parse::<u64>().ok())).unwrap_or(0);
        let cov = log.lines().rev().find_map(|l| l.split("cov: ").nth(1).and_then(|r| r.split_whitespace().next()).and_then(|n| n.parse::<u64>().ok())).unwrap_or(0);
        let mut arts: Vec<std::path::PathBuf> = std::fs::read_dir(format!("{}/artifacts", work)).map(|rd| rd.flatten().map(|e| e.path()).collect()).unwrap_or_default();
        arts.sort();
        let mut confirmed = 0;
        let mut unconfirmed = 0;
        for a in &arts {
            let data = std::fs::read(a).unwrap_or_default();
            let name = a.file_name().map(|s| s.to_string_lossy().to_string()).unwrap_or_default();
            if !(name.starts_with("crash-") || name.starts_with("oom-") || name.starts_with("timeout-")) {
                continue;
            }
            if let Some(case) = case_from_artifact(target, &data) {
                let ct = case.comps.render();
                let ft = case.factors.as_ref().map(|t| t.render());
                let r = catch(|| chain(&ct, ft.as_deref(), &case.loc, case.k, case.area, case.lm, case.red1, case.red2));
                if let Err(p) = r {
                    confirmed += 1;
                    if failure.is_none() {
                        failure = Some((
                            Failure::new("panic", format!("libFuzzer target {} found a panic ({}), confirmed in process: {}", target, name, p)),
                            serde_json::json!({"case": serde_json::to_value(&case).unwrap_or(Value::Null), "readable": C16::describe(&case)}),
                        ));
                    }
                } else {
                    unconfirmed += 1;
                }
            } else {
                unconfirmed += 1;
            }
        }
        report.insert(
            target.to_string(),
            serde_json::json!({"executions": execs, "coverage_edges": cov, "seconds": secs, "artifacts": arts.len(), "confirmed_in_process": confirmed, "unconfirmed (slow input / out-of-memory / not reproducible: inconclusive)": unconfirmed}),
        );
    }
    ev.insert("libfuzzer".into(), Value::Object(report));
    match failure {
        Some(f) => Err(f),
        None => Ok(()),
    }
}
