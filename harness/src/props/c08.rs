//! C08 Simplifying the factor set never changes the result (differential: full vs stripped set).

use proptest::prelude::*;
use serde::{Deserialize, Serialize};
use serde_json::Value;

use cteepbd::energy_performance;

use crate::common::*;
use crate::engine::*;
use crate::flat::flat;
use crate::gen::Kind;
use crate::dom::Srv;
use crate::tol::{compare_flats, ratio_tol, tol, CmpOpts};
use crate::{ensure, fail};

pub struct C08;

#[derive(Clone, Debug, Serialize, Deserialize)]
pub struct Case {
    pub base: BFCase,
    /// remove the declared cogeneration input (the documented error class): evaluation with the
    /// full set fails, so nothing but "no panic" is required of the stripped one
    pub drop_cogen_input: bool,
    /// when present, the building and factors come from the DHW grammar: the DHW indicator (part of
    /// what the program reports after simplifying the factors) reaches its inner branches
    #[serde(default)]
    pub dhw: Option<crate::dhw::DhwCase>,
    /// explicit `ELECTRICIDAD, COGEN, <dest>, <step>` lines in the factor set (legacy files carry them;
    /// they take precedence over the derived cogeneration factors): selector and values
    #[serde(default)]
    pub cogen_lines: Vec<(u8, [f32; 3])>,
}

impl Prop for C08 {
    type Case = Case;
    const ID: &'static str = "C08";
    fn rule() -> String {
        "cases = building() (output lines anywhere incl. first, auxiliaries as only electricity, cogeneration with and without declared input, nEPB uses in any carrier, surplus ambient/solar) x prepared factor sets (regulatory and user; 30 %: with explicit ELECTRICIDAD, COGEN lines as legacy files have); \
         oracle = energy_performance(c, f) vs energy_performance(c, f.strip(c)) under catch_unwind: no panic, Ok stays Ok, flat views equal within tolerance, the DHW indicator computed from either result is the same value or the same error, strip only removes; 25 % of the buildings come from the DHW grammar; \
         non-trivial = strip removed >= 1 factor and the building exports or cogenerates"
            .into()
    }
    fn assumptions() -> Vec<String> {
        vec!["two evaluations of the same building differ by HashMap summation order: equality up to the DESIGN 3.4 tolerance".into()]
    }
    fn cases(tier: Tier) -> u32 {
        tier.pick(4_000, 600_000)
    }
    fn strategy(tier: Tier) -> BoxedStrategy<Case> {
        let mut p = params(tier);
        p.cogen_heavy = true;
        p.aux_non_epb = true;
        p.with_needs = true;
        (
            bf_case(p, 50),
            prop::bool::weighted(0.1),
            proptest::option::weighted(0.25, crate::dhw::dhw_case(12)),
            prop_oneof![7 => Just(vec![]), 3 => proptest::collection::vec((any::<u8>(), crate::fgen::triple()), 1..=3)],
        )
            .prop_map(|(base, d, dhw, cogen_lines)| Case { base, drop_cogen_input: d, dhw, cogen_lines })
            .boxed()
    }
    fn describe(c: &Case) -> Value {
        let mut v = effective(c).describe();
        v["drop_cogen_input"] = serde_json::json!(c.drop_cogen_input);
        v
    }
    fn check(c: &Case, ctx: &mut Ctx) -> CheckResult {
        let e = effective(c);
        crate::common::label_long(ctx, &e.b);
        if c.drop_cogen_input && e.b.render().parse::<cteepbd::Components>().is_err() {
            // removing the cogeneration input may leave an auxiliary-bearing system without any
            // consumption line, which the parser rejects: nothing to compare
            ctx.label("rejected_after_dropping_cogen_input");
            return Ok(());
        }
        let inp = inputs(&e.b, &e.f)?;
        let sc = inp.scales(e.area);
        let mut full = inp.factors.clone();
        for (sel, v) in &c.cogen_lines {
            use cteepbd::types::{Carrier, Dest, Factor, RenNrenCo2, Source, Step};
            let (dest, step) = [(Dest::A_RED, Step::B), (Dest::A_NEPB, Step::B), (Dest::A_RED, Step::A), (Dest::A_NEPB, Step::A), (Dest::SUMINISTRO, Step::A)][(*sel % 5) as usize];
            full.wdata.push(Factor::new(Carrier::ELECTRICIDAD, Source::COGEN, dest, step, RenNrenCo2::new(v[0], v[1], v[2]), "definido por el usuario"));
        }
        if !c.cogen_lines.is_empty() {
            ctx.label("explicit_cogen_factor_lines");
        }
        let comps = inp.comps.clone();
        let stripped = match catch(|| full.clone().strip(&comps)) {
            Ok(s) => s,
            Err(p) => fail!("strip_panics", "Factors::strip panicked: {}", p),
        };
        // strip only removes
        for f in &stripped.wdata {
            let found = full.wdata.iter().any(|g| {
                g.carrier == f.carrier && g.source == f.source && g.dest == f.dest && g.step == f.step && g.ren == f.ren && g.nren == f.nren && g.co2 == f.co2
            });
            ensure!(found, "strip_only_removes", "stripped set contains a factor that the full set lacks: {}", f);
        }
        ensure!(stripped.wdata.len() <= full.wdata.len(), "strip_only_removes", "stripped set is larger");
        let r1 = match catch(|| energy_performance(&comps, &full, e.k, e.area, e.lm)) {
            Ok(r) => r,
            Err(p) => fail!("eval_panics", "evaluation with the full set panicked: {}", p),
        };
        let r2 = match catch(|| energy_performance(&comps, &stripped, e.k, e.area, e.lm)) {
            Ok(r) => r,
            Err(p) => fail!("eval_panics", "evaluation with the stripped set panicked: {}", p),
        };
        let removed = full.wdata.len() - stripped.wdata.len();
        match (r1, r2) {
            (Ok(a), Ok(b)) => {
                let (fa, fb) = (flat(&a), flat(&b));
                compare_flats(&fa, &fb, &sc, &CmpOpts { names: ("full", "stripped"), sub: "same_result", tol_mult: 2.0, ..Default::default() })?;
                let den = (a.balance.we.b.ren + a.balance.we.b.nren).abs() as f64;
                if den >= 1e-3 * sc.tot_weighted && den > 0.0 {
                    let rt = ratio_tol(tol(sc.tot_weighted, sc.n), den);
                    for (name, x, y) in [("rer", a.rer, b.rer), ("rer_nrb", a.rer_nrb, b.rer_nrb), ("rer_onst", a.rer_onst, b.rer_onst)] {
                        ensure!(((x - y).abs() as f64) <= rt * (1.0 + x.abs().max(y.abs()) as f64), "same_result", "{}: {} with the full set, {} with the stripped set", name, x, y);
                    }
                } else {
                    ctx.skip("ratio_den_noise");
                }
                // the DHW indicator that the program adds to the result after simplifying the factors
                match (catch(|| cteepbd::cte::fraccion_renovable_acs_nrb(&a)), catch(|| cteepbd::cte::fraccion_renovable_acs_nrb(&b))) {
                    (Ok(Ok(x)), Ok(Ok(y))) => {
                        let dem = a.balance.needs.ACS.unwrap_or(0.0).abs() as f64;
                        if (x.is_nan() && y.is_nan()) || dem < 1e-3 * sc.tot_energy {
                            ctx.skip("dhw_den_noise");
                        } else {
                            let t = 4.0 * ratio_tol(tol(sc.tot_energy, sc.n), dem) + 1e-5;
                            ensure!(((x - y).abs() as f64) <= t, "same_dhw_fraction", "DHW renewable fraction {} with the full set, {} with the stripped set", x, y);
                            ctx.label("dhw_value");
                        }
                    }
                    (Ok(Err(_)), Ok(Err(_))) => {
                        // an error either way (the wording of messages is not part of any listed property)
                        ctx.label("dhw_error");
                    }
                    (Ok(Ok(x)), Ok(Err(y))) => fail!("ok_becomes_err", "the DHW renewable fraction is {} with the full set and an error with the stripped one: {}", x, y),
                    (Ok(Err(x)), Ok(Ok(y))) => fail!("same_dhw_fraction", "the DHW renewable fraction is an error with the full set (`{}`) and {} with the stripped one", x, y),
                    (Err(p), _) | (_, Err(p)) => fail!("eval_panics", "fraccion_renovable_acs_nrb panicked: {}", p),
                }
                let exports = a.balance_cr.values().any(|b| b.exp.an != 0.0);
                let cogen = e.b.has_cogen_prod();
                if removed >= 1 && (exports || cogen) {
                    ctx.nontrivial = true;
                }
                if exports {
                    ctx.label("exports");
                }
                if cogen {
                    ctx.label("cogeneration");
                }
            }
            (Ok(_), Err(err)) => fail!("ok_becomes_err", "evaluation succeeds with the full set and fails with the stripped one: {}", err),
            (Err(_), _) => {
                ctx.label("full_set_err");
            }
        }
        if matches!(e.b.lines.first().map(|l| &l.kind), Some(Kind::Out { .. })) {
            ctx.label("salida_first");
        }
        ctx.count("factors_removed", removed as u64);
        Ok(())
    }
}

fn effective(c: &Case) -> BFCase {
    let start = match &c.dhw {
        Some(d) => BFCase { b: d.building(), f: d.factors(), k: d.k, area: c.base.area, lm: d.lm },
        None => c.base.clone(),
    };
    let mut e = start.clone();
    if c.drop_cogen_input {
        e.b.lines.retain(|l| !matches!(l.kind, Kind::Used { srv: Srv::COGEN, .. }));
        if e.b.lines.is_empty() {
            e = start;
        }
    }
    e
}
