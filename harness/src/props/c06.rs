//! C06 All declared auxiliary electricity is counted once, for the right services.

use std::collections::{BTreeMap, BTreeSet};

use proptest::prelude::*;
use serde_json::Value;

use cteepbd::energy_performance;
use cteepbd::types::Energy;

use crate::common::*;
use crate::dom::*;
use crate::engine::*;
use crate::fgen::FactorCase;
use crate::gen::{building, Building, Kind};
use crate::tol::{tol, EPS32};
use crate::{ensure, fail};

pub struct C06;

/// expected auxiliary energy per (system, service, step); None where the statement defines no
/// proportion (all outputs zero at the step): there only conservation and sign are required
pub struct AuxModel {
    /// per system and step: Σ|SALIDA values| / Σ_services |summed output| (>= 1): how much the
    /// f32 rounding of the output sums is amplified by cancellation between lines of one service
    pub cond: BTreeMap<i32, Vec<f64>>,
    pub declared: BTreeMap<i32, Vec<f64>>,
    pub expect: BTreeMap<(i32, Srv), Vec<Option<f64>>>,
    pub multi: BTreeSet<i32>,
    pub special_steps: bool,
}

pub fn aux_model(b: &Building) -> AuxModel {
    let n = b.n;
    let mut m = AuxModel { cond: BTreeMap::new(), declared: BTreeMap::new(), expect: BTreeMap::new(), multi: BTreeSet::new(), special_steps: false };
    for l in &b.lines {
        if let Kind::Aux = l.kind {
            let e = m.declared.entry(l.id).or_insert_with(|| vec![0.0; n]);
            for t in 0..n {
                e[t] += l.vals[t] as f64;
            }
        }
    }
    for (id, decl) in &m.declared {
        let srvs: BTreeSet<Srv> = b.lines.iter().filter(|l| l.id == *id).filter_map(|l| if let Kind::Used { srv, .. } = &l.kind { Some(*srv) } else { None }).collect();
        if srvs.len() == 1 {
            let s = *srvs.iter().next().unwrap();
            m.expect.insert((*id, s), decl.iter().map(|v| Some(*v)).collect());
            continue;
        }
        m.multi.insert(*id);
        let mut q: BTreeMap<Srv, Vec<f64>> = BTreeMap::new();
        for l in b.lines.iter().filter(|l| l.id == *id) {
            if let Kind::Out { srv } = &l.kind {
                let e = q.entry(*srv).or_insert_with(|| vec![0.0; n]);
                for t in 0..n {
                    e[t] += l.vals[t] as f64;
                }
            }
        }
        {
            let mut abs_all = vec![0.0f64; n];
            for l in b.lines.iter().filter(|l| l.id == *id) {
                if let Kind::Out { .. } = &l.kind {
                    for t in 0..n {
                        abs_all[t] += l.vals[t].abs() as f64;
                    }
                }
            }
            let cond: Vec<f64> = (0..n)
                .map(|t| {
                    let tot: f64 = q.values().map(|w| w[t].abs()).sum();
                    if tot > 0.0 {
                        (abs_all[t] / tot).max(1.0)
                    } else {
                        1.0
                    }
                })
                .collect();
            m.cond.insert(*id, cond);
        }
        let signs: BTreeSet<i8> = q.values().flat_map(|v| v.iter()).filter(|x| **x != 0.0).map(|x| if *x > 0.0 { 1 } else { -1 }).collect();
        if signs.len() == 2 {
            m.special_steps = true;
        }
        for (srv, v) in &q {
            let e: Vec<Option<f64>> = (0..n)
                .map(|t| {
                    let tot: f64 = q.values().map(|w| w[t].abs()).sum();
                    if tot > 0.0 {
                        Some(decl[t] * v[t].abs() / tot)
                    } else {
                        if decl[t] > 0.0 {
                            m.special_steps = true;
                        }
                        None
                    }
                })
                .collect();
            m.expect.insert((*id, *srv), e);
        }
    }
    m
}

impl Prop for C06 {
    type Case = Building;
    const ID: &'static str = "C06";
    fn rule() -> String {
        "cases = building() with 0-5 auxiliary-bearing systems (single EPB service; multi-service with SALIDA lines for 1-4 EPB services, positive and negative outputs, steps with zero output, several AUX and SALIDA lines per system), electricity otherwise present, scarce or absent; \
         oracle = model of the split computed from the declared lines: per system and step the shares add up to the declared auxiliary energy, no share negative, every share on an EPB service, single-service systems get all of it, \
         multi-service systems share it by |summed output| of each service (where all outputs are zero only conservation and sign are required), and the electricity balance's EPB use per step and per service equals declared CONSUMO + the split; \
         one case in sixteen zeroes every output of a multi-service system: the file is then either refused or the auxiliary energy is still conserved; \
         non-trivial = >= 2 systems with auxiliaries, one of them multi-service, and a step with mixed-sign or zero output"
            .into()
    }
    fn assumptions() -> Vec<String> {
        vec![
            "auxiliary-bearing systems are assignable by construction (one EPB service among CONSUMO lines, or SALIDA data with non-zero total magnitude)".into(),
            "the weight of a service is the magnitude of its summed output at the step".into(),
            "relative tolerance 16 eps32 on shares".into(),
        ]
    }
    fn cases(tier: Tier) -> u32 {
        tier.pick(4_000, 600_000)
    }
    fn strategy(tier: Tier) -> BoxedStrategy<Building> {
        let mut p = params(tier);
        p.aux_non_epb = false;
        p.regime_pct = 25;
        let mut scarce = p.clone();
        scarce.regime_pct = 0;
        scarce.carriers = crate::dom::ALL_CARS.iter().cloned().filter(|c| *c != Car::ELECTRICIDAD).collect();
        (prop_oneof![3 => building(&p), 2 => building(&scarce)], 0u8..16)
            .prop_map(|(mut b, k)| {
                // one case in sixteen: the outputs of the first multi-service auxiliary-bearing system are
                // all zero (nothing to share the auxiliaries by): the file must be refused, not accepted
                // with the energy dropped
                if k == 0 {
                    let m = aux_model(&b);
                    if let Some(id) = m.multi.iter().next().cloned() {
                        for l in b.lines.iter_mut().filter(|l| l.id == id && matches!(l.kind, Kind::Out { .. })) {
                            for v in &mut l.vals {
                                *v = 0.0;
                            }
                        }
                        b.tags.push("unassignable".into());
                    }
                }
                b
            })
            .boxed()
    }
    fn describe(b: &Building) -> Value {
        serde_json::json!({"components": b.render(), "tags": b.tags})
    }
    fn check(b: &Building, ctx: &mut Ctx) -> CheckResult {
        let n = b.n;
        crate::common::label_long(ctx, b);
        let comps = if b.tags.iter().any(|t| t == "unassignable") {
            match catch(|| b.render().parse::<cteepbd::Components>()) {
                Err(p) => fail!("panic", "parsing panicked: {}", p),
                Ok(Err(_)) => {
                    ctx.label("unassignable_rejected");
                    return Ok(());
                }
                // accepted (e.g. the system's auxiliaries are all zero): everything below still applies
                Ok(Ok(c)) => {
                    ctx.label("unassignable_accepted");
                    c
                }
            }
        } else {
            parse_sound(b)?
        };
        let m = aux_model(b);
        // parsed auxiliaries per (system, service)
        let mut got: BTreeMap<(i32, Srv), Vec<f64>> = BTreeMap::new();
        for e in &comps.data {
            if let Energy::Aux(a) = e {
                ensure!(a.values.len() == n, "aux_len", "auxiliary component of system {} has {} steps", a.id, a.values.len());
                let srv = Srv::from_lib(a.service);
                ensure!(srv.is_epb(), "aux_service_epb", "auxiliary energy of system {} carries the non-EPB service {}", a.id, srv.name());
                let g = got.entry((a.id, srv)).or_insert_with(|| vec![0.0; n]);
                for t in 0..n {
                    ensure!(a.values[t] >= 0.0 && a.values[t].is_finite(), "aux_nonneg", "system {} service {} step {}: auxiliary share {}", a.id, srv.name(), t, a.values[t]);
                    g[t] += a.values[t] as f64;
                }
            }
        }
        for (id, decl) in &m.declared {
            for t in 0..n {
                let s: f64 = got.iter().filter(|((i, _), _)| i == id).map(|(_, v)| v[t]).sum();
                // at a step where the system has no output the shares come from annual sums: f32 sums of n
                // values, whose rounding grows with n (8 760-step series: 2.4e-6 relative was observed)
                let annual = m.multi.contains(id) && m.expect.iter().filter(|((i, _), _)| i == id).all(|(_, e)| e[t].is_none());
                let ulps = 16.0 + if annual { n as f64 } else { 0.0 };
                ensure!((s - decl[t]).abs() <= ulps * EPS32 * decl[t] + 1e-9, "aux_conserved", "system {} step {}: auxiliary energy after assignment {} but {} was declared", id, t, s, decl[t]);
            }
        }
        for ((id, _), _) in &got {
            ensure!(m.declared.contains_key(id), "aux_invented", "auxiliary energy appears for system {} which declares none", id);
        }
        for ((id, srv), exp) in &m.expect {
            let g = got.get(&(*id, *srv));
            for t in 0..n {
                if let Some(e) = exp[t] {
                    let x = g.map(|g| g[t]).unwrap_or(0.0);
                    let d = m.declared[id][t];
                    let cond = m.cond.get(id).map(|c| c[t]).unwrap_or(1.0);
                    ensure!((x - e).abs() <= 16.0 * EPS32 * d * cond + 1e-9, "aux_share", "system {} service {} step {}: share {} but the model gives {} (declared {})", id, srv.name(), t, x, e, d);
                }
            }
        }
        for ((id, srv), g) in &got {
            if !m.expect.contains_key(&(*id, *srv)) {
                ensure!(g.iter().all(|x| *x == 0.0), "aux_share", "system {} gets auxiliary energy on service {} which it does not serve", id, srv.name());
            }
        }
        // through the balance
        let f = FactorCase::Regulatory { loc: "PENINSULA".into(), red1: None, red2: None }.prepare().map_err(|e| Failure::new("harness", e.to_string()))?;
        let ep = match energy_performance(&comps, &f, 0.0, 1.0, false) {
            Ok(ep) => ep,
            Err(e) => fail!("sound_evaluation_failed", "{}", e),
        };
        let has_aux = !m.declared.is_empty();
        let mut el_used: BTreeMap<Srv, Vec<f64>> = BTreeMap::new();
        let mut el_tot = vec![0.0f64; n];
        let mut s_abs = 0.0;
        let mut other_el = false;
        for l in &b.lines {
            match &l.kind {
                Kind::Used { srv, car: Car::ELECTRICIDAD } => {
                    other_el = true;
                    s_abs += l.vals.iter().map(|v| v.abs() as f64).sum::<f64>();
                    if srv.is_epb() {
                        let e = el_used.entry(*srv).or_insert_with(|| vec![0.0; n]);
                        for t in 0..n {
                            e[t] += l.vals[t] as f64;
                            el_tot[t] += l.vals[t] as f64;
                        }
                    }
                }
                Kind::Prod { src } if src.carrier() == Car::ELECTRICIDAD => other_el = true,
                Kind::Aux => s_abs += l.vals.iter().map(|v| v.abs() as f64).sum::<f64>(),
                _ => {}
            }
        }
        for ((_, srv), g) in &got {
            let e = el_used.entry(*srv).or_insert_with(|| vec![0.0; n]);
            for t in 0..n {
                e[t] += g[t];
            }
        }
        for decl in m.declared.values() {
            for t in 0..n {
                el_tot[t] += decl[t];
            }
        }
        if has_aux || other_el {
            let bc = match ep.balance_cr.get(&Car::ELECTRICIDAD.to_lib()) {
                Some(b) => b,
                None => fail!("aux_counted", "the building declares auxiliary electricity but has no electricity balance"),
            };
            let t_ = tol(s_abs, n + b.lines.len().saturating_sub(64));
            for t in 0..n {
                ensure!((bc.used.epus_t[t] as f64 - el_tot[t]).abs() <= t_, "aux_counted", "step {}: EPB electricity use {} but declared CONSUMO + AUX = {}", t, bc.used.epus_t[t], el_tot[t]);
            }
            for (srv, v) in &el_used {
                let lv = bc.used.epus_by_srv_t.get(&srv.to_lib());
                for t in 0..n {
                    let x = lv.map(|l| l[t] as f64).unwrap_or(0.0);
                    ensure!((x - v[t]).abs() <= t_, "aux_by_service", "step {}: EPB electricity use for {} is {} but CONSUMO + assigned AUX = {}", t, srv.name(), x, v[t]);
                }
            }
        }
        if has_aux && !other_el {
            ctx.label("aux_only_electricity");
        }
        ctx.label(format!("aux_systems:{}", m.declared.len().min(3)));
        if m.declared.len() >= 2 && !m.multi.is_empty() && m.special_steps {
            ctx.nontrivial = true;
        }
        Ok(())
    }
}
