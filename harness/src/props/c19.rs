//! C19 CLI options beat file metadata, which beats defaults; bad values are refused.
//! Every case is one out-of-process run of /repo's cteepbd binary (engine E3).

use proptest::prelude::*;
use proptest::sample::select;
use serde::{Deserialize, Serialize};
use serde_json::Value;

use cteepbd::types::RenNrenCo2;
use cteepbd::{cte, energy_performance, Components, UserWF};

use crate::clidrv::*;
use crate::engine::*;
use crate::fgen::milli_f32;
use crate::{ensure, fail};

pub struct C19;

#[derive(Clone, Debug, Serialize, Deserialize, PartialEq)]
pub enum V {
    Absent,
    Valid(String),
    Invalid(String),
}

#[derive(Clone, Debug, Serialize, Deserialize, PartialEq)]
pub enum Red {
    Absent,
    Valid([u32; 3]),
    Invalid(String),
}

#[derive(Clone, Debug, Serialize, Deserialize)]
pub struct Case {
    pub area_opt: V,
    pub area_meta: V,
    pub k_opt: V,
    pub k_meta: V,
    pub loc_opt: V,
    pub loc_meta: V,
    pub red1_opt: Red,
    pub red1_meta: Red,
    pub red2_opt: Red,
    pub red2_meta: Red,
    pub ffile: Option<usize>,
    pub bidx: usize,
    pub lm: bool,
    pub no_strip: bool,
    pub legacy_meta_keys: bool,
    /// how valid RED1/RED2 metadata are written: 0 `a, b, c`; 1 `(a, b, c)`; 2 `{ ren: a, nren: b, co2: c }`;
    /// 3 the keyed form in another order (the three documented forms)
    #[serde(default)]
    pub red_form: u8,
    /// bit i set: when the option of parameter i (0 area, 1 k_exp, 2 location, 3 RED1) is given and valid, the file
    /// also repeats that metadata key twice more with other valid values (files stitched together from several
    /// sources do this); the option wins whatever the program makes of repeated keys
    #[serde(default)]
    pub dup: u8,
    /// after a successful run, run the program again on the components (and factors) it emitted, without
    /// options: what it then echoes is what the emitted metadata *record*
    #[serde(default)]
    pub rerun: bool,
    /// where the metadata lines stand in the file: 0 before the components, 1 after the first component line,
    /// 2 at the end of the file (metadata are `#META key: value` lines wherever they are)
    #[serde(default)]
    pub meta_pos: u8,
}

const BUILDINGS: [&str; 3] = [
    "0, CONSUMO, CAL, RED1, 100, 120\n0, CONSUMO, ACS, RED2, 50, 60\n0, CONSUMO, ILU, ELECTRICIDAD, 30, 10\n0, PRODUCCION, EL_INSITU, 20, 40\n",
    "1, CONSUMO, CAL, RED1, 210.5\n1, CONSUMO, REF, RED2, 99\n2, CONSUMO, ACS, ELECTRICIDAD, 80\n2, CONSUMO, ACS, EAMBIENTE, 160\n3, PRODUCCION, EL_INSITU, 300\n3, CONSUMO, NEPB, ELECTRICIDAD, 50\n4, CONSUMO, CAL, GASNATURAL, 500\n",
    "0, CONSUMO, VEN, RED2, 10, 20, 30\n0, CONSUMO, ILU, RED1, 5, 5, 5\n0, CONSUMO, ILU, ELECTRICIDAD, 100, 0, 50\n0, PRODUCCION, EL_INSITU, 0, 80, 80\n0, PRODUCCION, EL_COGEN, 10, 10, 10\n0, CONSUMO, COGEN, GASNATURAL, 25, 25, 25\n",
];

const FFILES: [&str; 2] = [
    "#META CTE_FUENTE: prueba\nELECTRICIDAD, RED, SUMINISTRO, A, 0.311, 2.107, 0.401\nGASNATURAL, RED, SUMINISTRO, A, 0.007, 1.213, 0.255\nRED1, RED, SUMINISTRO, A, 0.611, 0.723, 0.111\nRED2, RED, SUMINISTRO, A, 0.255, 1.057, 0.222\nELECTRICIDAD, INSITU, A_RED, B, 0.201, 1.805, 0.301\n",
    "ELECTRICIDAD, RED, SUMINISTRO, A, 0.523, 1.888, 0.299\nGASNATURAL, RED, SUMINISTRO, A, 0.011, 1.105, 0.244\nRED1, RED, SUMINISTRO, A, 0.402, 0.911, 0.177\n",
];

fn num_v(valid: Vec<&'static str>, invalid: Vec<&'static str>) -> BoxedStrategy<V> {
    prop_oneof![
        45 => Just(V::Absent),
        45 => select(valid).prop_map(|s| V::Valid(s.to_string())),
        10 => select(invalid).prop_map(|s| V::Invalid(s.to_string())),
    ]
    .boxed()
}

fn red_v() -> BoxedStrategy<Red> {
    prop_oneof![
        55 => Just(Red::Absent),
        // exactly the built-in default (0, 1.3, 0.3): given by the user it must still beat a factors file's own line
        10 => Just(Red::Valid([0, 1300, 300])),
        28 => {
            // each component is often exactly 0 or 1 (a factor "not given" / the forced (1, 0, 0) shape)
            let comp = || prop_oneof![3 => Just(0u32), 1 => Just(1000u32), 6 => 0u32..=3000];
            (comp(), comp(), comp()).prop_map(|(a, b, c)| Red::Valid([a, b, c]))
        },
        // (not a triple: text, too few or too many items, decimal commas, a trailing comma)
        7 => select(vec!["abc", "1.0 x 2", "uno dos tres", "0.5, 2.0, 0.1, 0.25", "0.5, 2.0, 0.1,", "0,5, 2,0, 0,1", "1.5, 0.5", "0.5, 2.0, 0.1, x"]).prop_map(|s| Red::Invalid(s.to_string())),
    ]
    .boxed()
}

const AREA_VALID: [&str; 8] = ["1", "100.5", "0.0011", "250", "0.5", "37.25", "1e3", "12345.678"];
// (values whose rejection the statement does not fix - a decimal comma, another letter case - are not called invalid)
const AREA_INVALID: [&str; 8] = ["0", "-3", "0.001", "0.0005", "abc", "", "uno", "12m2"];
const K_VALID: [&str; 9] = ["0", "1", "0.5", "0.0", "1.0", "0.25", "0.7", "1e-1", ".5"];
const K_INVALID: [&str; 7] = ["-0.1", "1.5", "2", "-1", "abc", "", "medio"];

fn red_opt_args(flag: &str, r: &Red, args: &mut Vec<String>) {
    match r {
        Red::Absent => {}
        Red::Valid(t) => {
            args.push(flag.to_string());
            for x in t {
                args.push(format!("{}.{:03}", x / 1000, x % 1000));
            }
        }
        Red::Invalid(s) => {
            args.push(flag.to_string());
            let toks: Vec<&str> = s.split_whitespace().collect();
            for i in 0..3 {
                args.push(toks.get(i).unwrap_or(&"zz").to_string());
            }
        }
    }
}

fn red_meta_text(r: &Red, form: u8) -> Option<String> {
    let m = |x: u32| format!("{}.{:03}", x / 1000, x % 1000);
    match r {
        Red::Absent => None,
        Red::Valid(t) => Some(match form % 4 {
            0 => format!("{}, {}, {}", m(t[0]), m(t[1]), m(t[2])),
            1 => format!("({}, {}, {})", m(t[0]), m(t[1]), m(t[2])),
            2 => format!("{{ ren: {}, nren: {}, co2: {} }}", m(t[0]), m(t[1]), m(t[2])),
            _ => format!("{{co2: {}, ren: {} , nren:{}}}", m(t[2]), m(t[0]), m(t[1])),
        }),
        Red::Invalid(s) => Some(s.clone()),
    }
}

fn red_val(r: &Red) -> Option<[f32; 3]> {
    match r {
        Red::Valid(t) => Some([milli_f32(t[0]), milli_f32(t[1]), milli_f32(t[2])]),
        _ => None,
    }
}

pub fn components_text(c: &Case) -> String {
    let mut s = String::new();
    let (ka, kk, kl) = if c.legacy_meta_keys { ("Area_ref", "kexp", "Localizacion") } else { ("CTE_AREAREF", "CTE_KEXP", "CTE_LOCALIZACION") };
    if let V::Valid(v) | V::Invalid(v) = &c.area_meta {
        s.push_str(&format!("#META {}: {}\n", ka, v));
    }
    if let V::Valid(v) | V::Invalid(v) = &c.k_meta {
        s.push_str(&format!("#META {}: {}\n", kk, v));
    }
    if let V::Valid(v) | V::Invalid(v) = &c.loc_meta {
        s.push_str(&format!("#META {}: {}\n", kl, v));
    }
    if let Some(t) = red_meta_text(&c.red1_meta, c.red_form) {
        s.push_str(&format!("#META CTE_RED1: {}\n", t));
    }
    if let Some(t) = red_meta_text(&c.red2_meta, c.red_form >> 2) {
        s.push_str(&format!("#META CTE_RED2: {}\n", t));
    }
    if c.dup & 1 != 0 && matches!(c.area_opt, V::Valid(_)) {
        s.push_str(&format!("#META {}: 77.70\n#META {}: 880.25\n", ka, ka));
    }
    if c.dup & 2 != 0 && matches!(c.k_opt, V::Valid(_)) {
        s.push_str(&format!("#META {}: 0.4\n#META {}: 0.9\n", kk, kk));
    }
    if c.dup & 4 != 0 && matches!(c.loc_opt, V::Valid(_)) {
        s.push_str(&format!("#META {}: CANARIAS\n#META {}: BALEARES\n", kl, kl));
    }
    if c.dup & 8 != 0 && matches!(c.red1_opt, Red::Valid(_)) {
        s.push_str("#META CTE_RED1: 0.111, 0.222, 0.333\n#META CTE_RED1: 0.900, 0.800, 0.700\n");
    }
    // inner whitespace of the metadata lines (meta_pos / 3: 0 as written, 1 blanks around the colon, 2 tabs)
    let s = match (c.meta_pos / 3) % 3 {
        1 => s.lines().map(|l| match l.split_once(':') { Some((k, v)) => format!("{} :{}\n", k, v), None => format!("{}\n", l) }).collect::<String>(),
        2 => s.lines().map(|l| match l.split_once(':') { Some((k, v)) => format!("{}\t:\t{}\n", k.replacen("#META ", "#META\t", 1), v.trim()), None => format!("{}\n", l) }).collect::<String>(),
        _ => s,
    };
    let body = BUILDINGS[c.bidx % BUILDINGS.len()];
    match c.meta_pos % 3 {
        0 => format!("{}{}", s, body),
        1 => {
            let (first, rest) = body.split_once('\n').unwrap_or((body, ""));
            format!("{}\n{}{}", first, s, rest)
        }
        _ => format!("{}{}", body, s),
    }
}

pub fn argv(c: &Case) -> Vec<String> {
    let mut a = vec!["-c".to_string(), "comp.csv".to_string()];
    if let V::Valid(v) | V::Invalid(v) = &c.area_opt {
        a.push(format!("--arearef={}", v));
    }
    if let V::Valid(v) | V::Invalid(v) = &c.k_opt {
        a.push(format!("--kexp={}", v));
    }
    if let V::Valid(v) | V::Invalid(v) = &c.loc_opt {
        a.push("-l".to_string());
        a.push(v.clone());
    }
    red_opt_args("--red1", &c.red1_opt, &mut a);
    red_opt_args("--red2", &c.red2_opt, &mut a);
    if c.ffile.is_some() {
        a.push("-f".to_string());
        a.push("fact.csv".to_string());
    }
    if c.lm {
        a.push("--load_matching".to_string());
    }
    if c.no_strip {
        a.push("-F".to_string());
    }
    for (flag, name) in [("--json", "out.json"), ("--xml", "out.xml"), ("--txt", "out.txt"), ("--oc", "oc.csv"), ("--of", "of.csv")] {
        a.push(flag.to_string());
        a.push(name.to_string());
    }
    a
}

#[derive(Debug)]
pub struct Expect {
    /// acceptable exit statuses
    pub status: Vec<i32>,
    pub area: (String, f32),
    pub k: (String, f32),
    pub fsrc: (String, String),
    pub red1: Option<[f32; 3]>,
    pub red2: Option<[f32; 3]>,
    pub red1_user: bool,
    pub red2_user: bool,
}

fn parse_f32(s: &str) -> Option<f32> {
    s.trim().parse::<f32>().ok()
}

/// The precedence model of the statement.
pub fn model(c: &Case) -> Expect {
    let mut e = Expect { status: vec![0], area: ("predefinido".into(), 1.0), k: ("predefinido".into(), 0.0), fsrc: (String::new(), String::new()), red1: None, red2: None, red1_user: false, red2_user: false };
    // option parser level
    // (-f declares conflicts with "red1"/"red2", but the options are named CTE_RED1/CTE_RED2, so
    // only -f with -l is refused by the option parser; --red1/--red2 then override the file's values)
    let conflict = c.ffile.is_some() && c.loc_opt != V::Absent;
    let bad_loc_opt = matches!(&c.loc_opt, V::Invalid(_));
    if conflict || bad_loc_opt {
        e.status = vec![1];
        return e;
    }
    // invalid option values
    let opt_invalid = matches!(c.k_opt, V::Invalid(_)) || matches!(c.area_opt, V::Invalid(_)) || matches!(c.red1_opt, Red::Invalid(_)) || matches!(c.red2_opt, Red::Invalid(_));
    // Several independent faults may be present at once (an invalid option value, no source of factors, an
    // invalid metadata value that would be used); the statement gives each its exit code but not an order of
    // precedence among them, so any of the codes of the faults present is accepted.
    let mut errs: std::collections::BTreeSet<i32> = Default::default();
    if opt_invalid {
        errs.insert(65);
    }
    // RED1 / RED2: option > metadata (an unparsable metadata value may be refused or ignored)
    let mut may_refuse = false;
    for (opt, meta, slot, user) in [(&c.red1_opt, &c.red1_meta, 1, 1), (&c.red2_opt, &c.red2_meta, 2, 2)] {
        let v = match (opt, meta) {
            (Red::Valid(_), _) => red_val(opt),
            (_, Red::Valid(_)) => red_val(meta),
            (_, Red::Invalid(_)) => {
                may_refuse = true;
                None
            }
            _ => None,
        };
        let _ = user;
        if slot == 1 {
            e.red1 = v;
            e.red1_user = v.is_some();
        } else {
            e.red2 = v;
            e.red2_user = v.is_some();
        }
    }
    // factor source: file > -l > metadata > 64
    match (&c.ffile, &c.loc_opt, &c.loc_meta) {
        (Some(_), _, _) => e.fsrc = ("archivo".into(), "fact.csv".into()),
        (None, V::Valid(l), _) => e.fsrc = ("usuario".into(), l.clone()),
        (None, _, V::Valid(l)) => e.fsrc = ("metadatos".into(), l.clone()),
        (None, _, V::Invalid(_)) => {
            errs.insert(65);
        }
        (None, _, V::Absent) => {
            errs.insert(64);
        }
    }
    // area and k_exp
    let mut shadowed_invalid = false;
    match (&c.area_opt, &c.area_meta) {
        (V::Valid(o), m) => {
            e.area = ("usuario".into(), parse_f32(o).unwrap());
            if matches!(m, V::Invalid(_)) {
                shadowed_invalid = true;
            }
        }
        (V::Invalid(_), _) => {}
        (_, V::Valid(m)) => e.area = ("metadatos".into(), parse_f32(m).unwrap()),
        (_, V::Invalid(_)) => {
            errs.insert(65);
        }
        _ => {}
    }
    match (&c.k_opt, &c.k_meta) {
        (V::Valid(o), m) => {
            e.k = ("usuario".into(), parse_f32(o).unwrap());
            if matches!(m, V::Invalid(_)) {
                shadowed_invalid = true;
            }
        }
        (V::Invalid(_), _) => {}
        (_, V::Valid(m)) => e.k = ("metadatos".into(), parse_f32(m).unwrap()),
        (_, V::Invalid(_)) => {
            errs.insert(65);
        }
        _ => {}
    }
    if !errs.is_empty() {
        if shadowed_invalid || may_refuse {
            errs.insert(65);
        }
        e.status = errs.into_iter().collect();
        return e;
    }
    if shadowed_invalid || may_refuse {
        // both "refuse" and "use the option / ignore the unparsable RED metadata" satisfy the statement
        e.status = vec![0, 65];
    }
    e
}

/// `Label (origin) [unit]: value`: the origin is the expected one and the printed value is the value used, at
/// the precision it is printed with (the number of decimals is not part of the statement)
fn echo_agrees(line: &str, origin: &str, value: f32) -> bool {
    echo_agrees_within(line, origin, value, 0.0)
}

/// number of decimals of a printed number
fn decimals_of(text: &str) -> i32 {
    text.trim().split_once('.').map(|(_, d)| d.chars().take_while(|c| c.is_ascii_digit()).count() as i32).unwrap_or(0)
}

/// as `echo_agrees`, with `slack` more (the rounding of a value that went through a metadata line)
fn echo_agrees_within(line: &str, origin: &str, value: f32, slack: f64) -> bool {
    let (head, val) = match line.rsplit_once(':') {
        Some(x) => x,
        None => return false,
    };
    let got_origin = head.split_once('(').and_then(|(_, r)| r.split_once(')')).map(|(o, _)| o.trim());
    if got_origin != Some(origin) {
        return false;
    }
    let t = val.trim();
    let decimals = t.split_once('.').map(|(_, d)| d.chars().take_while(|c| c.is_ascii_digit()).count()).unwrap_or(0);
    match t.parse::<f64>() {
        Ok(g) => (g - value as f64).abs() <= 0.5 * 10f64.powi(-(decimals as i32)) * 1.0001 + slack * 1.0001 + 1e-6 * (value.abs() as f64),
        Err(_) => false,
    }
}

fn meta_of(text: &str) -> Vec<(String, String)> {
    text.lines()
        .filter_map(|l| l.trim().strip_prefix("#META"))
        .filter_map(|l| l.split_once(':'))
        .map(|(k, v)| (k.trim().to_string(), v.trim().to_string()))
        .collect()
}

fn triple_of(s: &str) -> Option<[f32; 3]> {
    // exactly three numeric items (the form the program writes); an invalid value that the program left
    // in place, such as `0.5, 2.0, 0.1, x`, is not a recorded triple
    let items: Vec<&str> = s.split(',').collect();
    let v: Vec<f32> = items.iter().filter_map(|x| x.trim().parse::<f32>().ok()).collect();
    if items.len() == 3 && v.len() == 3 {
        Some([v[0], v[1], v[2]])
    } else {
        None
    }
}

impl Prop for C19 {
    type Case = Case;
    const ID: &'static str = "C19";
    fn rule() -> String {
        "each case is one run of /repo's cteepbd binary: for area, k_exp, location, RED1, RED2 independently {option absent / valid / invalid} x {metadata absent / valid / invalid} (values in range, boundaries 0, 1, 0.0011, out of range finite, non-numeric text, empty), \
         factor source {none, -l, -f file} including the option-parser conflicts, 3 buildings using RED1, RED2, electricity with export, legacy or current metadata keys, load matching, -F; \
         oracle = precedence model (option > metadata > default; file > -l > CTE_LOCALIZACION > exit 64): exit status, the three echo lines with origin and value, --json k_exp / arearef / wfactors, --oc metadata, C_ep of the report vs an in-process evaluation with the effective parameters, and on 65/64/1 no report and no result files; \
         non-trivial = some parameter has option and metadata both present and different, or an invalid value"
            .into()
    }
    fn assumptions() -> Vec<String> {
        vec![
            "option values are passed as --opt=value (a bare negative number is taken by clap for a flag)".into(),
            "where the statement is silent both behaviours are accepted: a valid option shadowing an invalid metadata value (0 or 65), an unparsable CTE_RED1/2 metadata (refused or treated as absent)".into(),
            "CTE_LOCALIZACION in --oc is not examined when a factors file was the source; built-in RED defaults need not be written back".into(),
            "debug build of the CLI (the profile of the repository's own CLI tests)".into(),
        ]
    }
    fn cases(tier: Tier) -> u32 {
        tier.pick(1_600, 60_000)
    }
    fn strategy(_tier: Tier) -> BoxedStrategy<Case> {
        let locs = vec!["PENINSULA", "CANARIAS", "BALEARES", "CEUTAMELILLA"];
        let loc_v = |inv: Vec<&'static str>| -> BoxedStrategy<V> {
            prop_oneof![
                35 => Just(V::Absent),
                57 => select(locs.clone()).prop_map(|s| V::Valid(s.to_string())),
                8 => select(inv).prop_map(|s| V::Invalid(s.to_string())),
            ]
            .boxed()
        };
        (
            (
                num_v(AREA_VALID.to_vec(), AREA_INVALID.to_vec()),
                num_v(AREA_VALID.to_vec(), AREA_INVALID.to_vec()),
                num_v(K_VALID.to_vec(), K_INVALID.to_vec()),
                num_v(K_VALID.to_vec(), K_INVALID.to_vec()),
                loc_v(vec!["MADRID", "ESPAÑA"]),
                loc_v(vec!["MADRID", "ESPAÑA", ""]),
            ),
            (red_v(), red_v(), red_v(), red_v()),
            (proptest::option::weighted(0.3, 0usize..2), 0usize..3, any::<bool>(), prop::bool::weighted(0.2), prop::bool::weighted(0.15), prop_oneof![3 => Just(0u8), 2 => 0u8..16]),
            (prop_oneof![3 => Just(0u8), 1 => 0u8..16], prop::bool::weighted(0.35), prop_oneof![6 => Just(0u8), 2 => Just(1u8), 2 => Just(2u8), 1 => Just(3u8), 1 => Just(6u8), 1 => Just(4u8), 1 => Just(8u8)]),
        )
            .prop_map(|((area_opt, area_meta, k_opt, k_meta, loc_opt, loc_meta), (red1_opt, red1_meta, red2_opt, red2_meta), (ffile, bidx, lm, no_strip, legacy_meta_keys, red_form), (dup, rerun, meta_pos))| {
                // an empty location metadata value cannot be written as `#META key:` + nothing on a legacy key: keep as is
                Case { area_opt, area_meta, k_opt, k_meta, loc_opt, loc_meta, red1_opt, red1_meta, red2_opt, red2_meta, ffile, bidx, lm, no_strip, legacy_meta_keys, red_form, dup, rerun, meta_pos }
            })
            .boxed()
    }
    /// every case is one run of the program: not a target for in-process coverage-guided fuzzing
    fn extra(_tier: Tier, _seed: u64, _ev: &mut std::collections::BTreeMap<String, Value>) -> Result<(), (Failure, Value)> {
        Ok(())
    }
    fn describe(c: &Case) -> Value {
        serde_json::json!({"argv": argv(c), "comp.csv": components_text(c), "fact.csv": c.ffile.map(|i| FFILES[i % 2]), "model": format!("{:?}", model(c))})
    }
    fn check(c: &Case, ctx: &mut Ctx) -> CheckResult {
        let text = components_text(c);
        let mut files = vec![("comp.csv".to_string(), text.clone().into_bytes())];
        if let Some(i) = c.ffile {
            files.push(("fact.csv".to_string(), FFILES[i % 2].as_bytes().to_vec()));
        }
        let args = argv(c);
        let run = run_cli_checked(&args, &files).map_err(|e| Failure::new("harness", e))?;
        let r = check_run(c, &text, &run, ctx);
        run.cleanup();
        r
    }
}

fn check_run(c: &Case, text: &str, run: &CliRun, ctx: &mut Ctx) -> CheckResult {
    let e = model(c);
    ensure!(!run.timed_out, "hang", "cteepbd did not terminate within the watchdog: {}", run.summary());
    ensure!(run.signal.is_none(), "signal", "cteepbd was killed by a signal: {}", run.summary());
    ensure!(!run.stderr.contains("panicked at"), "panic", "cteepbd panicked: {}", run.summary());
    let st = run.status.unwrap_or(-1);
    ensure!(e.status.contains(&st), "status", "exit status {} but the precedence model expects {:?}; {}", st, e.status, run.summary());
    ctx.label(format!("status:{}", st));
    let any_invalid = [&c.area_opt, &c.area_meta, &c.k_opt, &c.k_meta, &c.loc_opt, &c.loc_meta].iter().any(|v| matches!(v, V::Invalid(_)))
        || [&c.red1_opt, &c.red1_meta, &c.red2_opt, &c.red2_meta].iter().any(|v| matches!(v, Red::Invalid(_)));
    let both_differ = |o: &V, m: &V| matches!((o, m), (V::Valid(a), V::Valid(b)) if parse_f32(a) != parse_f32(b) || a != b);
    let shadow = both_differ(&c.area_opt, &c.area_meta) || both_differ(&c.k_opt, &c.k_meta) || both_differ(&c.loc_opt, &c.loc_meta)
        || matches!((&c.red1_opt, &c.red1_meta), (Red::Valid(a), Red::Valid(b)) if a != b)
        || matches!((&c.red2_opt, &c.red2_meta), (Red::Valid(a), Red::Valid(b)) if a != b);
    if any_invalid || shadow {
        ctx.nontrivial = true;
    }
    if shadow {
        ctx.label("option_shadows_metadata");
    }
    if st != 0 {
        ensure!(!run.stderr.trim().is_empty(), "error_reported", "exit status {} with empty stderr", st);
        ensure!(!run.stdout.contains("** Eficiencia energética"), "no_result_on_error", "exit status {} but a report was printed", st);
        for f in ["out.json", "out.xml", "out.txt"] {
            ensure!(!run.exists(f), "no_result_on_error", "exit status {} but {} was written", st, f);
        }
        return Ok(());
    }
    // ---- success: echo lines
    let so = &run.stdout;
    let line = |prefix: &str| so.lines().find(|l| l.starts_with(prefix)).map(|l| l.to_string());
    let l_area = line("Área de referencia (").ok_or_else(|| Failure::new("echo", "no `Área de referencia` line"))?;
    let expect_area = format!("Área de referencia ({}) [m2]: {:.2}", e.area.0, e.area.1);
    ensure!(echo_agrees(&l_area, &e.area.0, e.area.1), "echo_area", "printed `{}` but the value used should be `{}`", l_area, expect_area);
    let l_k = line("Factor de exportación (").ok_or_else(|| Failure::new("echo", "no `Factor de exportación` line"))?;
    let expect_k = format!("Factor de exportación ({}) [-]: {:.1}", e.k.0, e.k.1);
    ensure!(echo_agrees(&l_k, &e.k.0, e.k.1), "echo_kexp", "printed `{}` but the value used should be `{}`", l_k, expect_k);
    let l_f = line("Factores de paso (").ok_or_else(|| Failure::new("echo", "no `Factores de paso` line"))?;
    let expect_f = format!("Factores de paso ({}): {}", e.fsrc.0, e.fsrc.1);
    ensure!(l_f == expect_f, "echo_factors", "printed `{}` but the source used should be `{}`", l_f, expect_f);
    // ---- json
    let js = run.file("out.json").ok_or_else(|| Failure::new("json", "out.json was not written"))?;
    let jv: Value = serde_json::from_str(&js).map_err(|x| Failure::new("json", format!("out.json does not parse: {}", x)))?;
    let jk = jv.get("k_exp").and_then(|v| v.as_f64()).unwrap_or(f64::NAN);
    let ja = jv.get("arearef").and_then(|v| v.as_f64()).unwrap_or(f64::NAN);
    ensure!((jk - e.k.1 as f64).abs() <= 1e-6, "json_kexp", "JSON k_exp = {} but the effective value is {}", jk, e.k.1);
    ensure!((ja - e.area.1 as f64).abs() <= 1e-6 * (e.area.1 as f64).max(1.0), "json_area", "JSON arearef = {} but the effective value is {}", ja, e.area.1);
    // effective factors
    let file_factors = c.ffile.map(|i| FFILES[i % 2].parse::<cteepbd::Factors>().unwrap());
    let file_red = |name: &str| -> Option<[f32; 3]> {
        file_factors.as_ref().and_then(|f| f.wdata.iter().find(|x| format!("{}", x.carrier) == name && format!("{}", x.source) == "RED").map(|x| [x.ren, x.nren, x.co2]))
    };
    let eff_red1 = e.red1.or(file_red("RED1")).unwrap_or([0.0, 1.3, 0.3]);
    let eff_red2 = e.red2.or(file_red("RED2")).unwrap_or([0.0, 1.3, 0.3]);
    let eff_el = match &file_factors {
        Some(_) => file_red("ELECTRICIDAD").unwrap(),
        None => {
            let f = &cte::CTE_LOCWF_RITE2014[e.fsrc.1.as_str()];
            f.wdata.iter().find(|x| format!("{}", x.carrier) == "ELECTRICIDAD" && format!("{}", x.source) == "RED").map(|x| [x.ren, x.nren, x.co2]).unwrap()
        }
    };
    let jf = |car: &str| -> Option<[f64; 3]> {
        jv.get("wfactors")?.get("wdata")?.as_array()?.iter().find(|x| x.get("carrier").and_then(|c| c.as_str()) == Some(car) && x.get("source").and_then(|c| c.as_str()) == Some("RED") && x.get("dest").and_then(|c| c.as_str()) == Some("SUMINISTRO")).map(|x| {
            [x.get("ren").and_then(|v| v.as_f64()).unwrap_or(f64::NAN), x.get("nren").and_then(|v| v.as_f64()).unwrap_or(f64::NAN), x.get("co2").and_then(|v| v.as_f64()).unwrap_or(f64::NAN)]
        })
    };
    for (car, eff) in [("RED1", eff_red1), ("RED2", eff_red2), ("ELECTRICIDAD", eff_el)] {
        let got = jf(car).ok_or_else(|| Failure::new("json_factors", format!("no {} grid factor in the JSON wfactors", car)))?;
        for j in 0..3 {
            ensure!((got[j] - eff[j] as f64).abs() <= 1e-6, "json_factors", "{} factor in the JSON is {:?} but the effective one is {:?}", car, got, eff);
        }
    }
    // ---- --oc metadata
    let oc = run.file("oc.csv").ok_or_else(|| Failure::new("oc", "oc.csv was not written"))?;
    let metas = meta_of(&oc);
    let get = |k: &str| metas.iter().find(|(kk, _)| kk == k).map(|(_, v)| v.clone());
    let a = get("CTE_AREAREF").and_then(|v| parse_f32(&v)).ok_or_else(|| Failure::new("oc_area", "no numeric CTE_AREAREF in the emitted components"))?;
    ensure!((a - e.area.1).abs() <= 0.005 + 1e-6 * e.area.1, "oc_area", "emitted CTE_AREAREF = {} but the value used is {}", a, e.area.1);
    let k = get("CTE_KEXP").and_then(|v| parse_f32(&v)).ok_or_else(|| Failure::new("oc_kexp", "no numeric CTE_KEXP in the emitted components"))?;
    ensure!((k - e.k.1).abs() <= 0.05 + 1e-6, "oc_kexp", "emitted CTE_KEXP = {} but the value used is {}", k, e.k.1);
    for (key, user, eff) in [("CTE_RED1", e.red1_user, eff_red1), ("CTE_RED2", e.red2_user, eff_red2)] {
        let m = get(key);
        if user {
            let t = m.as_deref().and_then(triple_of).ok_or_else(|| Failure::new("oc_red", format!("{} was supplied by the user but is not recorded in the emitted components", key)))?;
            for j in 0..3 {
                ensure!((t[j] - eff[j]).abs() <= 0.0005 + 1e-6, "oc_red", "emitted {} = {:?} but the value used is {:?}", key, t, eff);
            }
        } else if let Some(t) = m.as_deref().and_then(triple_of) {
            // present although not user supplied: must hold the value used
            for j in 0..3 {
                ensure!((t[j] - eff[j]).abs() <= 0.0005 + 1e-6, "oc_red", "emitted {} = {:?} but the value used is {:?}", key, t, eff);
            }
        }
    }
    if c.ffile.is_none() {
        let l = get("CTE_LOCALIZACION").ok_or_else(|| Failure::new("oc_loc", "the location used is not recorded in the emitted components"))?;
        ensure!(l == e.fsrc.1, "oc_loc", "emitted CTE_LOCALIZACION = {} but the location used is {}", l, e.fsrc.1);
    }
    // ---- report vs in-process evaluation with the effective parameters
    let comps: Components = text.parse().map_err(|x| Failure::new("harness", format!("model cannot parse the components: {}", x)))?;
    let rn = |t: Option<[f32; 3]>| t.map(|a| RenNrenCo2::new(a[0], a[1], a[2]));
    let user = UserWF { red1: rn(e.red1), red2: rn(e.red2) };
    let fp = match c.ffile {
        Some(i) => cte::wfactors_from_str(FFILES[i % 2], user, cte::CTE_USERWF),
        None => cte::wfactors_from_loc(&e.fsrc.1, &cte::CTE_LOCWF_RITE2014, user, cte::CTE_USERWF),
    }
    .map_err(|x| Failure::new("harness", format!("model cannot prepare the factors: {}", x)))?;
    let ep = energy_performance(&comps, &fp, e.k.1, e.area.1, c.lm).map_err(|x| Failure::new("harness", format!("model evaluation fails: {}", x)))?;
    let l_cep = line("C_ep [kWh/m2.an]").ok_or_else(|| Failure::new("report", "no C_ep line in the report"))?;
    let nums = numbers_in(&l_cep.replace("m2.an", ""));
    ensure!(nums.len() == 3, "report", "cannot read three numbers from `{}`", l_cep);
    let b = ep.balance_m2.we.b;
    for (name, got, want) in [("ren", nums[0], b.ren), ("nren", nums[1], b.nren), ("tot", nums[2], b.ren + b.nren)] {
        ensure!((got - want as f64).abs() <= 0.1 + 1e-4 * (want.abs() as f64), "report_cep", "report C_ep {} = {} but the effective parameters give {}", name, got, want);
    }
    if let Some(false) = Some(run.exists("out.xml") && run.exists("out.txt") && run.exists("of.csv")) {
        fail!("files", "a requested output file was not written");
    }
    // ---- "recorded in the metadata of the emitted components": the program itself, run again on what it
    // emitted and without any option, must use the same values (at the precision the metadata record:
    // two decimals for the area - so not below 0.01 m2 -, one for k_exp, three for factors)
    if c.rerun && (e.area.1 * 100.0).round() >= 1.0 {
        ctx.label("rerun_on_emitted_files");
        let mut files2 = vec![("comp.csv".to_string(), oc.clone().into_bytes())];
        let mut args2: Vec<String> = vec!["-c".into(), "comp.csv".into()];
        if c.ffile.is_some() {
            let of = run.file("of.csv").ok_or_else(|| Failure::new("files", "of.csv was not written"))?;
            files2.push(("fact.csv".to_string(), of.into_bytes()));
            args2.push("-f".into());
            args2.push("fact.csv".into());
        }
        if c.lm {
            args2.push("--load_matching".into());
        }
        if c.no_strip {
            args2.push("-F".into());
        }
        args2.push("--json".into());
        args2.push("out.json".into());
        let run2 = run_cli_checked(&args2, &files2).map_err(|x| Failure::new("harness", x))?;
        let r = (|| -> CheckResult {
            ensure!(!run2.timed_out && run2.signal.is_none() && !run2.stderr.contains("panicked at"), "rerun_crash", "second run on the emitted files: {}", run2.summary());
            ensure!(run2.status == Some(0), "rerun_status", "cteepbd refuses the components it emitted itself: {}", run2.summary());
            let line2 = |prefix: &str| run2.stdout.lines().find(|l| l.starts_with(prefix)).map(|l| l.to_string()).unwrap_or_default();
            let want_a = format!("Área de referencia (metadatos) [m2]: {:.2}", e.area.1);
            // (the metadata hold the value at their own printed precision, whatever that is)
            let meta_slack = |key: &str| get(key).map(|v| 0.5 * 10f64.powi(-decimals_of(&v))).unwrap_or(0.0);
            ensure!(echo_agrees_within(&line2("Área de referencia ("), "metadatos", e.area.1, meta_slack("CTE_AREAREF")), "recorded_area", "run on the emitted components prints `{}`; the first run used `{}`", line2("Área de referencia ("), want_a);
            let want_k = format!("Factor de exportación (metadatos) [-]: {:.1}", e.k.1);
            ensure!(echo_agrees_within(&line2("Factor de exportación ("), "metadatos", e.k.1, meta_slack("CTE_KEXP")), "recorded_kexp", "run on the emitted components prints `{}`; the first run used `{}`", line2("Factor de exportación ("), want_k);
            if c.ffile.is_none() {
                let want_f = format!("Factores de paso (metadatos): {}", e.fsrc.1);
                ensure!(line2("Factores de paso (") == want_f, "recorded_location", "run on the emitted components prints `{}`; the first run used location `{}`", line2("Factores de paso ("), e.fsrc.1);
            }
            let js2 = run2.file("out.json").ok_or_else(|| Failure::new("json", "out.json of the second run was not written"))?;
            let jv2: Value = serde_json::from_str(&js2).map_err(|x| Failure::new("json", format!("out.json of the second run does not parse: {}", x)))?;
            for (car, eff) in [("RED1", eff_red1), ("RED2", eff_red2), ("ELECTRICIDAD", eff_el)] {
                let got = jv2.get("wfactors").and_then(|w| w.get("wdata")).and_then(|w| w.as_array()).and_then(|a| {
                    a.iter().find(|x| x.get("carrier").and_then(|c| c.as_str()) == Some(car) && x.get("source").and_then(|c| c.as_str()) == Some("RED") && x.get("dest").and_then(|c| c.as_str()) == Some("SUMINISTRO"))
                });
                let got = got.ok_or_else(|| Failure::new("recorded_factors", format!("no {} grid factor in the second run", car)))?;
                for (j, key) in ["ren", "nren", "co2"].iter().enumerate() {
                    let v = got.get(*key).and_then(|v| v.as_f64()).unwrap_or(f64::NAN);
                    ensure!((v - eff[j] as f64).abs() <= 0.00051, "recorded_factors", "run on the emitted files uses {} {} = {}; the first run used {:?}", car, key, v, eff);
                }
            }
            Ok(())
        })();
        run2.cleanup();
        r?;
    }
    Ok(())
}
