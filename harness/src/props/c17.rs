//! C17 Every output format is well formed and reports the computed result.

use std::collections::BTreeMap;

use proptest::collection::vec;
use proptest::prelude::*;
use proptest::sample::select;
use serde::{Deserialize, Serialize};
use serde_json::Value;

use cteepbd::types::{Energy, EnergyPerformance, RenNrenCo2};
use cteepbd::{cte, energy_performance, AsCtePlain, AsCteXml};

use crate::clidrv::*;
use crate::common::*;
use crate::dom::*;
use crate::engine::*;
use crate::fgen::FactorCase;
use crate::gen::{f32_text, Kind};
use crate::xmlcheck;
use crate::{ensure, fail};

pub struct C17;

#[derive(Clone, Debug, Serialize, Deserialize)]
pub struct Case {
    pub base: BFCase,
    pub comments: Vec<String>,
    pub metas: Vec<(String, String)>,
    pub fcomments: Vec<String>,
    pub fmetas: Vec<(String, String)>,
    /// also run the command-line program and check the files it writes
    pub cli: bool,
}

pub fn nasty() -> BoxedStrategy<String> {
    let toks = vec![
        "<", ">", "&", "\"", "'", "\\", "]]>", "-->", "&amp;", "&lt;", "á", "ñ", "e\u{301}", "\u{1F600}", "\t", "a", "B", "0", " ", "#", ",", ";", "=", "%", "--", "<b>", "</Comentario>", "<!--", "&#", "&;", "\u{FFFD}", "Ω",
    ];
    vec(select(toks), 0..8).prop_map(|v| v.concat().trim().to_string()).boxed()
}

fn meta_key() -> BoxedStrategy<String> {
    nasty().prop_map(|s| format!("X{}", s.replace(':', "").replace('\t', " ")).trim().to_string()).boxed()
}

/// the case with the nasty strings applied
pub fn effective(c: &Case) -> BFCase {
    let mut e = c.base.clone();
    for (i, l) in e.b.lines.iter_mut().enumerate() {
        if let Some(s) = c.comments.get(i) {
            if !s.is_empty() && !s.contains("CTEEPBD_") {
                l.comment = s.clone();
            }
        }
    }
    e.b.meta = c.metas.clone();
    if let FactorCase::UserFile { meta, lines, .. } = &mut e.f {
        for (i, l) in lines.iter_mut().enumerate() {
            if let Some(s) = c.fcomments.get(i) {
                l.comment = s.clone();
            }
        }
        *meta = c.fmetas.clone();
    }
    e
}

// ---------------------------------------------------------------------------------------------
// plain report

#[derive(Debug, Default)]
pub struct Report {
    /// label (text up to the first number / value) -> numbers, for the single-value lines
    pub scalars: BTreeMap<String, Vec<f64>>,
    pub demand: BTreeMap<String, Option<f64>>,
    /// lists in order of appearance: (header, [(key, numbers)])
    pub lists: Vec<(String, Vec<(String, Vec<f64>)>)>,
    /// every non-empty line with digits replaced, in order
    pub labels: Vec<String>,
    pub all_numbers: Vec<f64>,
}

/// every labelled number of a report as a map (table entries keyed by table index and key), so
/// that two reports can be compared entry by entry with a missing entry read as zero (the by-key
/// tables only list non-zero carriers / sources)
pub fn report_map(r: &Report) -> BTreeMap<String, Vec<f64>> {
    let mut m = BTreeMap::new();
    for (k, v) in &r.scalars {
        m.insert(format!("s:{}", k), v.clone());
    }
    for (k, v) in &r.demand {
        m.insert(format!("d:{}", k), v.map(|x| vec![x]).unwrap_or_default());
    }
    for (i, (_, entries)) in r.lists.iter().enumerate() {
        for (k, v) in entries {
            m.insert(format!("t{}:{}", i, k), v.clone());
        }
    }
    m
}

pub fn parse_report(txt: &str) -> Report {
    let mut r = Report::default();
    let mut section = String::new();
    let mut cur_list: Option<usize> = None;
    for line in txt.lines() {
        let l = line.trim_end();
        if l.trim().is_empty() {
            cur_list = None;
            continue;
        }
        let nums = numbers_in(&l.replace("m2.an", "").replace("[m2]", "").replace("CO2e", "").replace("CO2", "").replace("co2", "co"));
        let label: String = {
            let mut s = String::new();
            let mut in_num = false;
            let cs: Vec<char> = l.chars().collect();
            for (ci, ch) in cs.iter().cloned().enumerate() {
                // the sign of a printed number is part of the number (-0.00 vs 0.00 is rounding noise)
                if ch == '-' && cs.get(ci + 1).map(|c| c.is_ascii_digit()).unwrap_or(false) && ci > 0 && cs[ci - 1] == ' ' {
                    continue;
                }
                if ch.is_ascii_digit() {
                    if !in_num {
                        s.push('#');
                    }
                    in_num = true;
                } else if in_num && ch == '.' {
                } else {
                    in_num = false;
                    s.push(ch);
                }
            }
            s
        };
        r.labels.push(label);
        r.all_numbers.extend(nums.iter());
        if l.starts_with("** ") {
            section = l.to_string();
            cur_list = None;
            continue;
        }
        if l.starts_with("* ") {
            r.lists.push((l.to_string(), vec![]));
            cur_list = Some(r.lists.len() - 1);
            continue;
        }
        if let (Some(i), true) = (cur_list, l.starts_with("- ")) {
            if let Some((k, v)) = l[2..].split_once(':') {
                // numbers of the value part only (keys such as RED1 carry digits)
                r.lists[i].1.push((k.trim().to_string(), numbers_in(&v.replace("co2", "co"))));
                continue;
            }
        }
        cur_list = None;
        if section.starts_with("** Demanda") && l.starts_with("- ") {
            if let Some((k, v)) = l[2..].split_once(':') {
                r.demand.insert(k.trim().to_string(), v.trim().parse::<f64>().ok());
            }
            continue;
        }
        let key: String = l.split(|c: char| c == '=' || c == ':').next().unwrap_or("").trim().to_string();
        // `Suministrada 12.00:` carries its number before the colon
        let key = if key.strip_prefix("Suministrada ").map(|r| r.trim().parse::<f64>().is_ok()).unwrap_or(false) { "Suministrada".to_string() } else { key };
        // the first line under a label is the template's; sections appended later may reuse a word
        r.scalars.entry(key).or_insert(nums);
    }
    r
}

fn near(a: f64, b: f64, unit: f64) -> bool {
    (a - b).abs() <= unit * 1.0001 + 1e-6 * b.abs()
}

fn r4(v: &RenNrenCo2) -> [f64; 4] {
    [v.ren as f64, v.nren as f64, (v.ren + v.nren) as f64, v.co2 as f64]
}

/// the plain report states the numbers of `ep`
pub fn check_plain(txt: &str, ep: &EnergyPerformance) -> CheckResult {
    check_plain_with(txt, ep, 0.0)
}

/// `slack_rel`: extra tolerance relative to the largest magnitude of the line (ren, nren, tot):
/// when `ep` was read back from JSON its values carry the 3-decimal re-rounding, which for large
/// f32 values is one ulp of the operands (0.03 at 5e5), not of their possibly small difference
pub fn check_plain_with(txt: &str, ep: &EnergyPerformance, slack_rel: f64) -> CheckResult {
    let r = parse_report(txt);
    let bal = &ep.balance_m2;
    let one = |key: &str, want: &[f64], unit: f64| -> CheckResult {
        let got = match r.scalars.get(key).or_else(|| {
            let m: Vec<&Vec<f64>> = r.scalars.iter().filter(|(k, _)| k.starts_with(key)).map(|(_, v)| v).collect();
            if m.len() == 1 {
                Some(m[0])
            } else {
                None
            }
        }) {
            Some(g) => g,
            // the headline figures the statement names must be there; the other lines of the template are
            // checked when the report has them under the label known today (a reworded label is not a defect)
            None if ["Area_ref", "k_exp", "C_ep [kWh/", "E_CO2 [kg_", "RER"].contains(&key) => return Err(Failure::new("plain_missing", format!("no `{}` line in the report", key))),
            None => return Ok(()),
        };
        ensure!(got.len() >= want.len(), "plain_missing", "line `{}` carries {} numbers, expected {}", key, got.len(), want.len());
        let mag = want.iter().fold(0.0f64, |m, x| m.max(x.abs()));
        for (i, w) in want.iter().enumerate() {
            ensure!(near(got[i], *w, unit + slack_rel * mag), "plain_value", "report line `{}` number {} is {} but the result holds {}", key, i, got[i], w);
        }
        Ok(())
    };
    // the additional indicator: renewable share of the DHW demand, in per cent with one decimal, or a dash
    let dhw_line = txt.lines().find(|l| l.trim_start().starts_with("Porcentaje renovable de la demanda de ACS"));
    match &ep.misc {
        Some(m) => {
            let l = dhw_line.ok_or_else(|| Failure::new("plain_missing", "no line for the renewable share of the DHW demand although the result carries the indicators".to_string()))?;
            let shown = l.rsplit(':').next().unwrap_or("").trim().trim_end_matches("[%]").trim().to_string();
            match m.get("fraccion_renovable_demanda_acs_nrb").and_then(|v| v.parse::<f64>().ok()) {
                Some(fr) if fr.is_finite() => {
                    let g: f64 = shown.parse().map_err(|_| Failure::new("plain_value", format!("DHW renewable share printed as `{}` but the result holds {}", shown, fr)))?;
                    ensure!(near(g, 100.0 * fr, 0.051 + 1e-6 * (100.0 * fr).abs()), "plain_value", "DHW renewable share printed as {} % but the result holds the fraction {}", g, fr);
                }
                Some(_) => {}
                None => ensure!(shown == "-", "plain_value", "DHW renewable share printed as `{}` although the result holds no value", shown),
            }
        }
        None => ensure!(dhw_line.is_none(), "plain_value", "a DHW renewable share is printed although the result carries none"),
    }
    one("Area_ref", &[ep.arearef as f64], 0.01)?;
    one("k_exp", &[ep.k_exp as f64], 0.01)?;
    let b = bal.we.b;
    one("C_ep [kWh/", &[b.ren as f64, b.nren as f64, (b.ren + b.nren) as f64], 0.1)?;
    one("E_CO2 [kg_", &[b.co2 as f64], 0.01)?;
    one("RER", &[ep.rer as f64], 0.01)?;
    one("RER_nrb", &[ep.rer_nrb as f64], 0.01)?;
    for (k, v) in [("ACS", bal.needs.ACS), ("CAL", bal.needs.CAL), ("REF", bal.needs.REF)] {
        match (r.demand.get(k), v) {
            (Some(None), None) => {}
            (Some(Some(g)), Some(w)) => ensure!(near(*g, w as f64, 0.1), "plain_value", "demand {} printed as {} but the result holds {}", k, g, w),
            (g, w) => fail!("plain_value", "demand {} printed as {:?} but the result holds {:?}", k, g, w),
        }
    }
    one("Energía consumida", &[(bal.used.epus + bal.used.nepus + bal.used.cgnus) as f64], 0.01)?;
    one("+ Consumida en usos EPB", &[bal.used.epus as f64], 0.01)?;
    one("+ Consumida en usos no EPB", &[bal.used.nepus as f64], 0.01)?;
    one("+ Consumida en cogeneración", &[bal.used.cgnus as f64], 0.01)?;
    one("Generada", &[bal.prod.an as f64], 0.01)?;
    one("Suministrada", &[bal.del.an as f64], 0.01)?;
    one("- de red", &[bal.del.grid as f64], 0.01)?;
    one("- in situ", &[bal.del.onst as f64], 0.01)?;
    one("Exportada", &[bal.exp.an as f64], 0.01)?;
    one("- a la red", &[bal.exp.grid as f64], 0.01)?;
    one("- a usos no EPB", &[bal.exp.nepus as f64], 0.01)?;
    one("Recursos utilizados (paso A)", &r4(&bal.we.a), 0.01)?;
    one("Incluyendo el efecto de la energía exportada (paso B)", &r4(&bal.we.b), 0.01)?;
    // lists
    let srv = |m: &std::collections::HashMap<cteepbd::types::Service, f32>| -> Vec<(String, Vec<f64>)> { m.iter().map(|(k, v)| (format!("{}", k), vec![*v as f64])).collect() };
    let car = |m: &std::collections::HashMap<cteepbd::types::Carrier, f32>| -> Vec<(String, Vec<f64>)> { m.iter().map(|(k, v)| (format!("{}", k), vec![*v as f64])).collect() };
    let src = |m: &std::collections::HashMap<cteepbd::types::ProdSource, f32>| -> Vec<(String, Vec<f64>)> { m.iter().map(|(k, v)| (format!("{}", k), vec![*v as f64])).collect() };
    let rsv = |m: &std::collections::HashMap<cteepbd::types::Service, RenNrenCo2>| -> Vec<(String, Vec<f64>)> { m.iter().map(|(k, v)| (format!("{}", k), r4(v).to_vec())).collect() };
    let expected: Vec<(&str, Vec<(String, Vec<f64>)>)> = vec![
        ("EPB use by service", srv(&bal.used.epus_by_srv)),
        ("EPB use by carrier", car(&bal.used.epus_by_cr)),
        ("production by carrier", car(&bal.prod.by_cr)),
        ("production by source", src(&bal.prod.by_src)),
        ("produced and used by source", src(&bal.prod.epus_by_src)),
        ("step A by service", rsv(&bal.we.a_by_srv)),
        ("step B by service", rsv(&bal.we.b_by_srv)),
    ];
    // every table of the result is stated by a table of the report with the same keys and numbers (the order
    // of the tables and of their rows is only required not to vary between runs, which is checked apart; the
    // report may carry further tables)
    let mut used = vec![false; r.lists.len()];
    for (name, want) in expected.into_iter() {
        let wk: std::collections::BTreeSet<&String> = want.iter().map(|g| &g.0).collect();
        let matches = |got: &Vec<(String, Vec<f64>)>| -> Result<(), String> {
            let gk: std::collections::BTreeSet<&String> = got.iter().map(|g| &g.0).collect();
            if gk != wk || got.len() != want.len() {
                return Err(format!("lists {:?} but the result's keys are {:?}", got.iter().map(|g| &g.0).collect::<Vec<_>>(), wk));
            }
            for w in want.iter() {
                let g = got.iter().find(|g| g.0 == w.0).unwrap();
                if g.1.len() < w.1.len() {
                    return Err(format!("entry {} carries {} numbers", g.0, g.1.len()));
                }
                let mag = w.1.iter().fold(0.0f64, |m, x| m.max(x.abs()));
                for i in 0..w.1.len() {
                    if !near(g.1[i], w.1[i], 0.01 + slack_rel * mag) {
                        return Err(format!("entry {} number {} is {} but the result holds {}", g.0, i, g.1[i], w.1[i]));
                    }
                }
            }
            Ok(())
        };
        let mut why = String::from("the report has no further table");
        let mut hit = None;
        for i in 0..r.lists.len() {
            if used[i] {
                continue;
            }
            match matches(&r.lists[i].1) {
                Ok(()) => {
                    hit = Some(i);
                    break;
                }
                Err(e) => {
                    // keep the explanation of the nearest candidate: same keys, other numbers
                    if e.starts_with("entry") || why.starts_with("the report has no") {
                        why = format!("table `{}` {}", r.lists[i].0, e);
                    }
                }
            }
        }
        match hit {
            Some(i) => used[i] = true,
            None => fail!(if why.contains("number") { "plain_value" } else { "plain_list_keys" }, "no table of the report states `{}` of the result: {}", name, why),
        }
    }
    Ok(())
}

// ---------------------------------------------------------------------------------------------
// XML

fn vals_of(n: &xmlcheck::Node) -> Option<Vec<f64>> {
    let v = n.child("Valores")?;
    if v.text.trim().is_empty() {
        return Some(vec![]);
    }
    v.text.split(',').map(|x| x.trim().parse::<f64>().ok()).collect()
}

pub fn check_xml(xml: &str, ep: &EnergyPerformance) -> CheckResult {
    let root = match xmlcheck::parse(xml) {
        Ok(r) => r,
        Err(e) => fail!("xml_not_well_formed", "{}", e),
    };
    ensure!(root.name == "BalanceEPB", "xml_root", "root element is <{}>", root.name);
    let num = |name: &str| -> Result<f64, Failure> {
        root.child(name).and_then(|n| n.text.trim().parse::<f64>().ok()).ok_or_else(|| Failure::new("xml_value", format!("no numeric <{}>", name)))
    };
    ensure!(near(num("kexp")?, ep.k_exp as f64, 0.01), "xml_value", "<kexp> = {} but k_exp = {}", num("kexp")?, ep.k_exp);
    ensure!(near(num("AreaRef")?, ep.arearef as f64, 0.01), "xml_value", "<AreaRef> = {} but arearef = {}", num("AreaRef")?, ep.arearef);
    let epm2 = root.child("Epm2").ok_or_else(|| Failure::new("xml_value", "no <Epm2>"))?;
    let b = ep.balance_m2.we.b;
    let tot = epm2.child("tot").and_then(|n| n.text.trim().parse::<f64>().ok()).ok_or_else(|| Failure::new("xml_value", "no numeric <tot>"))?;
    let nren = epm2.child("nren").and_then(|n| n.text.trim().parse::<f64>().ok()).ok_or_else(|| Failure::new("xml_value", "no numeric <nren>"))?;
    let mag = (b.ren.abs().max(b.nren.abs())) as f64;
    ensure!(near(tot, (b.ren + b.nren) as f64, 0.1 + 8.0 * crate::tol::EPS32 * mag), "xml_value", "<Epm2><tot> = {} but C_ep,tot = {}", tot, b.ren + b.nren);
    ensure!(near(nren, b.nren as f64, 0.1 + 8.0 * crate::tol::EPS32 * mag), "xml_value", "<Epm2><nren> = {} but C_ep,nren = {}", nren, b.nren);
    // components: every component of the result is stated by one element of its own (matched as multisets: the
    // statement does not fix the order of the elements, only that it does not vary between runs - checked apart)
    let comps = root.child("Componentes").ok_or_else(|| Failure::new("xml_value", "no <Componentes>"))?;
    let elems: Vec<&xmlcheck::Node> = comps.children.iter().filter(|c| matches!(c.name.as_str(), "Consumo" | "Produccion" | "EAux" | "Salida")).collect();
    ensure!(elems.len() == ep.components.data.len(), "xml_components", "{} component elements for {} components", elems.len(), ep.components.data.len());
    let text_of = |el: &xmlcheck::Node, tag: &str| el.child(tag).map(|n| n.text.trim().to_string());
    let mut taken = vec![false; elems.len()];
    for e in ep.components.data.iter() {
        let (want_name, vals, id): (&str, &Vec<f32>, i32) = match e {
            Energy::Used(u) => ("Consumo", &u.values, u.id),
            Energy::Prod(p) => ("Produccion", &p.values, p.id),
            Energy::Aux(a) => ("EAux", &a.values, a.id),
            Energy::Out(o) => ("Salida", &o.values, o.id),
        };
        let tags_ok = |el: &xmlcheck::Node| -> bool {
            match e {
                Energy::Used(u) => text_of(el, "Vector") == Some(format!("{}", u.carrier)) && text_of(el, "Servicio") == Some(format!("{}", u.service)),
                Energy::Prod(p) => text_of(el, "Origen") == Some(format!("{}", p.source)),
                Energy::Aux(a) => text_of(el, "Servicio") == Some(format!("{}", a.service)),
                Energy::Out(o) => text_of(el, "Servicio") == Some(format!("{}", o.service)),
            }
        };
        let vals_ok = |el: &xmlcheck::Node| -> bool {
            match vals_of(el) {
                Some(got) => got.len() == vals.len() && got.iter().zip(vals.iter()).all(|(g, w)| near(*g, *w as f64, 0.01)),
                None => false,
            }
        };
        let same_head = |el: &xmlcheck::Node| el.name == want_name && el.child("Id").and_then(|n| n.text.trim().parse::<i32>().ok()) == Some(id) && tags_ok(el);
        let hit = (0..elems.len()).find(|&i| !taken[i] && same_head(elems[i]) && vals_ok(elems[i]));
        match hit {
            Some(i) => taken[i] = true,
            None => {
                // say what is wrong with the nearest candidate
                if let Some(i) = (0..elems.len()).find(|&i| !taken[i] && same_head(elems[i])) {
                    let got = vals_of(elems[i]);
                    fail!("xml_value", "<{}> of system {}: <Valores> {:?} but the component holds {:?}", want_name, id, got, vals);
                }
                fail!("xml_components", "no <{}> element with the id and tags of the component `{}`", want_name, e);
            }
        }
    }
    // demands: one element per declared demand, matched by service
    let dem: Vec<&xmlcheck::Node> = comps.children.iter().filter(|c| c.name == "Demanda").collect();
    let nd = &ep.components.needs;
    let want: Vec<(&str, &Vec<f32>)> = [("ACS", &nd.ACS), ("CAL", &nd.CAL), ("REF", &nd.REF)].iter().filter_map(|(k, v)| v.as_ref().map(|v| (*k, v))).collect();
    ensure!(dem.len() == want.len(), "xml_demand", "{} <Demanda> elements directly under <Componentes> for {} declared demands", dem.len(), want.len());
    for (k, v) in want.iter() {
        let els: Vec<&&xmlcheck::Node> = dem.iter().filter(|el| text_of(el, "Servicio") == Some(k.to_string())).collect();
        ensure!(els.len() == 1, "xml_demand", "{} <Demanda> elements for the {} demand", els.len(), k);
        let got = vals_of(els[0]).ok_or_else(|| Failure::new("xml_demand", "<Demanda> has no numeric <Valores>"))?;
        ensure!(got.len() == v.len(), "xml_demand", "<Demanda> has {} values for {} steps", got.len(), v.len());
        for (g, w) in got.iter().zip(v.iter()) {
            ensure!(near(*g, *w as f64, 0.01), "xml_value", "<Demanda> value {} but the demand holds {}", g, w);
        }
    }
    // factors
    let fs = root.child("FactoresDePaso").ok_or_else(|| Failure::new("xml_value", "no <FactoresDePaso>"))?;
    let fel: Vec<&xmlcheck::Node> = fs.children.iter().filter(|c| c.name == "Factor").collect();
    ensure!(fel.len() == ep.wfactors.wdata.len(), "xml_factors", "{} <Factor> elements for {} factors", fel.len(), ep.wfactors.wdata.len());
    let mut ftaken = vec![false; fel.len()];
    for f in ep.wfactors.wdata.iter() {
        let key_ok = |el: &xmlcheck::Node| {
            text_of(el, "Vector") == Some(format!("{}", f.carrier)) && text_of(el, "Origen") == Some(format!("{}", f.source)) && text_of(el, "Destino") == Some(format!("{}", f.dest)) && text_of(el, "Paso") == Some(format!("{}", f.step))
        };
        let i = (0..fel.len()).find(|&i| !ftaken[i] && key_ok(fel[i])).ok_or_else(|| Failure::new("xml_factors", format!("no <Factor> element for `{}`", f)))?;
        ftaken[i] = true;
        let el = fel[i];
        for (tag, w) in [("ren", f.ren), ("nren", f.nren), ("co2", f.co2)] {
            let g = el.child(tag).and_then(|n| n.text.trim().parse::<f64>().ok()).ok_or_else(|| Failure::new("xml_factors", format!("<Factor> without numeric <{}>", tag)))?;
            ensure!(near(g, w as f64, 0.001), "xml_value", "<Factor><{}> = {} but the factor is {}", tag, g, w);
        }
    }
    let nmeta = comps.children.iter().filter(|c| c.name == "Metadato").count() + fs.children.iter().filter(|c| c.name == "Metadato").count();
    ensure!(nmeta == ep.components.meta.len() + ep.wfactors.wmeta.len(), "xml_meta", "{} <Metadato> elements for {} metadata", nmeta, ep.components.meta.len() + ep.wfactors.wmeta.len());
    Ok(())
}

// ---------------------------------------------------------------------------------------------
// JSON

pub fn check_json(ep: &EnergyPerformance, pretty: bool) -> Result<EnergyPerformance, Failure> {
    let s = if pretty { serde_json::to_string_pretty(ep) } else { serde_json::to_string(ep) }.map_err(|e| Failure::new("json_serialize", e.to_string()))?;
    let v1: Value = serde_json::from_str(&s).map_err(|e| Failure::new("json_invalid", format!("serialised result is not valid JSON: {}", e)))?;
    let back: EnergyPerformance = serde_json::from_str(&s).map_err(|e| Failure::new("json_read_back", format!("the JSON document cannot be read back into a result: {}", e)))?;
    let s2 = serde_json::to_string(&back).map_err(|e| Failure::new("json_serialize", e.to_string()))?;
    let v2: Value = serde_json::from_str(&s2).map_err(|e| Failure::new("json_invalid", e.to_string()))?;
    if v1 != v2 {
        // equal up to the 3-decimal rounding of the serialiser: a value rounded to 3 decimals is not
        // always representable in f32 (ulp ~ 0.001 at 8192), so re-rounding may move the last digit
        let (mut a, mut b) = (BTreeMap::new(), BTreeMap::new());
        crate::flat::json_numeric_leaves(&v1, "", &mut a);
        crate::flat::json_numeric_leaves(&v2, "", &mut b);
        ensure!(a.len() == b.len(), "json_round_trip", "reading the JSON back and writing it again changes the set of numeric fields");
        for (k, x) in &a {
            let y = match b.get(k) {
                Some(y) => *y,
                None => fail!("json_round_trip", "field {} disappears when the JSON is read back and written again", k),
            };
            ensure!((x - y).abs() <= 0.0011 + 4.0 * crate::tol::EPS32 * x.abs(), "json_round_trip", "reading the JSON back and writing it again changes {} from {} to {}", k, x, y);
        }
        fn strip_numbers(v: &Value) -> Value {
            match v {
                Value::Number(_) => Value::Null,
                Value::Array(a) => Value::Array(a.iter().map(strip_numbers).collect()),
                Value::Object(m) => Value::Object(m.iter().map(|(k, v)| (k.clone(), strip_numbers(v))).collect()),
                x => x.clone(),
            }
        }
        ensure!(strip_numbers(&v1) == strip_numbers(&v2), "json_round_trip", "reading the JSON back and writing it again changes a non-numeric part of the document");
    }
    // the document states the numbers of the result: every numeric field read back from the JSON
    // equals the computed one, up to the 3-decimal rounding of the weighted-energy triples
    let (fe, fb) = (crate::flat::flat(ep), crate::flat::flat(&back));
    ensure!(fe.len() == fb.len(), "json_states_result", "the JSON document holds {} numeric fields of the result, the result has {}", fb.len(), fe.len());
    for (k, e) in &fe {
        let b = match fb.get(k) {
            Some(b) => b,
            None => fail!("json_states_result", "field `{}` of the result is not in the JSON document", k),
        };
        ensure!(b.vals.len() == e.vals.len(), "json_states_result", "field `{}` has another length in the JSON document", k);
        for i in 0..e.vals.len() {
            let (x, y) = (e.vals[i], b.vals[i]);
            let t = if e.kind == crate::flat::EK::Weighted { 0.00051 + 4.0 * crate::tol::EPS32 * x.abs() } else { 0.0 };
            ensure!((x - y).abs() <= t || (x.is_nan() && y.is_nan()), "json_states_result", "the result holds `{}`[{}] = {} but the JSON document says {}", k, i, x, y);
        }
    }
    ensure!(back.k_exp == ep.k_exp && back.arearef == ep.arearef, "json_round_trip", "k_exp / arearef change through JSON");
    ensure!(format!("{:?}", back.components.data) == format!("{:?}", ep.components.data), "json_round_trip", "components change through JSON");
    ensure!(format!("{:?}", back.components.meta) == format!("{:?}", ep.components.meta), "json_round_trip", "component metadata change through JSON");
    ensure!(format!("{:?}", back.components.needs) == format!("{:?}", ep.components.needs), "json_round_trip", "demands change through JSON");
    ensure!(back.wfactors.wdata.len() == ep.wfactors.wdata.len(), "json_round_trip", "factors change through JSON");
    ensure!(back.rer == ep.rer && back.rer_nrb == ep.rer_nrb && back.rer_onst == ep.rer_onst, "json_round_trip", "RER values change through JSON");
    ensure!(back.balance_cr.len() == ep.balance_cr.len(), "json_round_trip", "carrier balances change through JSON");
    Ok(back)
}

impl Prop for C17 {
    type Case = Case;
    const ID: &'static str = "C17";
    fn rule() -> String {
        "cases = results of building() (DEMANDA present/absent, negative SALIDA, values up to 1e7, any k_exp / area / load matching, regulatory or user factor files) whose comments and metadata (components and factors) come from a nasty-string strategy \
         (<, >, &, quotes, backslash, ]]>, -->, &amp;, partial entities, combining and astral characters, tab); about 1 % (quick) of the cases also run the real cteepbd binary with --json --xml --txt; \
         oracle = strict XML well-formedness checker + numbers of kexp / AreaRef / Epm2 / every Valores list / every factor vs the struct; JSON valid, read back, re-serialised to the same JSON value; every labelled number and table of the plain report vs the struct, table keys exact and sorted; \
         repeated evaluation gives the same labels and numbers; files written by the binary pass the same checks and --txt equals the printed report; \
         non-trivial = a demand is declared, a nasty character is present and there are >= 2 carriers"
            .into()
    }
    fn assumptions() -> Vec<String> {
        vec![
            "no C0 control characters other than tab in comments / metadata (XML 1.0 cannot represent them)".into(),
            "content fidelity of comments is not checked (the statement promises well-formedness and numbers)".into(),
            "a printed number may differ from the struct by one unit of its last digit; two evaluations may differ in the last printed digit (summation order)".into(),
            "hand-written XML checker (no XML crate offline); cross-checked against Python's expat in the thorough tier".into(),
        ]
    }
    fn cases(tier: Tier) -> u32 {
        tier.pick(3_000, 300_000)
    }
    fn strategy(tier: Tier) -> BoxedStrategy<Case> {
        let mut p = params(tier);
        p.with_needs = true;
        let cli_p = tier.pick(0.012, 0.03);
        (
            bf_case(p, 50),
            vec(prop_oneof![2 => Just(String::new()), 3 => nasty()], 0..8),
            vec((meta_key(), nasty()), 0..3),
            vec(prop_oneof![2 => Just(String::new()), 3 => nasty()], 0..6),
            vec((meta_key(), nasty()), 0..2),
            prop::bool::weighted(cli_p),
        )
            .prop_map(|(base, comments, metas, fcomments, fmetas, cli)| Case { base, comments, metas, fcomments, fmetas, cli })
            .boxed()
    }
    fn describe(c: &Case) -> Value {
        let mut v = effective(c).describe();
        v["cli"] = serde_json::json!(c.cli);
        v
    }
    fn check(c: &Case, ctx: &mut Ctx) -> CheckResult {
        let e = effective(c);
        crate::common::label_long(ctx, &e.b);
        let inp = inputs(&e.b, &e.f)?;
        let ep = eval_sound(&inp.comps, &inp.factors, e.k, e.area, e.lm)?;
        let ep = cte::incorpora_demanda_renovable_acs_nrb(ep);
        // (a) XML
        let xml = ep.to_xml();
        check_xml(&xml, &ep)?;
        // (b) JSON
        check_json(&ep, false)?;
        // (c) plain
        let plain = ep.to_plain();
        check_plain(&plain, &ep)?;
        // repeated evaluation: same labels, same numbers up to one printed unit
        let ep2 = cte::incorpora_demanda_renovable_acs_nrb(eval_sound(&inp.comps, &inp.factors, e.k, e.area, e.lm)?);
        // RER lines are ratios of rounding residues when the total primary energy is noise
        // (DESIGN 3.4): their numbers are then left out of the repeat comparison
        let den = (ep.balance.we.b.ren + ep.balance.we.b.nren).abs() as f64;
        let rer_is_noise = {
            let sc = inp.scales(e.area);
            !(den >= 1e-3 * sc.tot_weighted && den > 0.0)
        };
        let wild = |l: &str| l.rsplit('=').next().and_then(|v| v.trim().parse::<f64>().ok()).map(|v| v.abs() > 2.0).unwrap_or(false);
        let drop_rer = |t: &str| -> String { t.lines().filter(|l| !(l.starts_with("RER") && (rer_is_noise || wild(l)))).collect::<Vec<_>>().join("\n") };
        let (r1, r2) = (parse_report(&drop_rer(&plain)), parse_report(&drop_rer(&ep2.to_plain())));
        ensure!(r1.labels == r2.labels, "stable_order", "two evaluations print different line sequences");
        ensure!(r1.all_numbers.len() == r2.all_numbers.len(), "stable_order", "two evaluations print a different amount of numbers");
        let sc = inp.scales(e.area);
        let noise = 2.0 * crate::tol::tol(sc.tot_weighted.max(sc.tot_energy), sc.n) / (e.area as f64) + 0.1001;
        for (a, b) in r1.all_numbers.iter().zip(r2.all_numbers.iter()) {
            ensure!((a - b).abs() <= noise + 2e-6 * a.abs(), "stable_numbers", "two evaluations print {} and {}", a, b);
        }
        let strip_nums = |s: &str| -> String { s.chars().filter(|c| !c.is_ascii_digit() && *c != '-').collect() };
        ensure!(strip_nums(&xml) == strip_nums(&ep2.to_xml()), "stable_order", "two evaluations give XML documents that differ in more than digits");
        // (d) the program's files
        if c.cli {
            check_cli(&e, ctx)?;
            ctx.label("cli_run");
        }
        let has_nasty = |s: &str| s.chars().any(|ch| matches!(ch, '<' | '>' | '&' | '"' | '\'' | '\\') || !ch.is_ascii());
        let nasty_present = e.b.lines.iter().any(|l| has_nasty(&l.comment)) || e.b.meta.iter().any(|(k, v)| has_nasty(k) || has_nasty(v)) || c.fcomments.iter().any(|s| has_nasty(s));
        if nasty_present {
            ctx.label("nasty_text");
        }
        if !e.b.needs.is_empty() {
            ctx.label("demand");
        }
        if !e.b.needs.is_empty() && nasty_present && ep.balance_cr.len() >= 2 {
            ctx.nontrivial = true;
        }
        let _ = (Kind::Aux, Car::GLP);
        Ok(())
    }
}

/// run the real binary and check the three files it writes
pub fn check_cli(e: &BFCase, _ctx: &mut Ctx) -> CheckResult {
    let mut args: Vec<String> = vec!["-c".into(), "comp.csv".into(), format!("--kexp={}", f32_text(e.k)), format!("--arearef={}", f32_text(e.area))];
    let mut files = vec![("comp.csv".to_string(), e.b.render().into_bytes())];
    match &e.f {
        FactorCase::Regulatory { loc, red1, red2 } => {
            args.push("-l".into());
            args.push(loc.clone());
            for (flag, r) in [("--red1", red1), ("--red2", red2)] {
                if let Some(t) = r {
                    args.push(flag.into());
                    for x in t {
                        args.push(f32_text(*x));
                    }
                }
            }
        }
        FactorCase::UserFile { red1, red2, .. } => {
            args.push("-f".into());
            args.push("fact.csv".into());
            files.push(("fact.csv".to_string(), e.f.file_text().unwrap().into_bytes()));
            for (flag, r) in [("--red1", red1), ("--red2", red2)] {
                if let Some(t) = r {
                    args.push(flag.into());
                    for x in t {
                        args.push(f32_text(*x));
                    }
                }
            }
        }
    }
    if e.lm {
        args.push("--load_matching".into());
    }
    for (flag, name) in [("--json", "out.json"), ("--xml", "out.xml"), ("--txt", "out.txt")] {
        args.push(flag.into());
        args.push(name.into());
    }
    if e.area <= 1e-3 {
        return Ok(()); // the program refuses areas <= 0.001 (C19)
    }
    let run = run_cli_checked(&args, &files).map_err(|x| Failure::new("harness", x))?;
    let res = (|| -> CheckResult {
        ensure!(!run.timed_out && run.signal.is_none() && !run.stderr.contains("panicked at"), "cli_crash", "{}", run.summary());
        ensure!(run.status == Some(0), "cli_status", "cteepbd failed on a valid building: {}", run.summary());
        let js = run.file("out.json").ok_or_else(|| Failure::new("cli_files", "out.json was not written"))?;
        let xml = run.file("out.xml").ok_or_else(|| Failure::new("cli_files", "out.xml was not written"))?;
        let txt = run.file("out.txt").ok_or_else(|| Failure::new("cli_files", "out.txt was not written"))?;
        let epj: EnergyPerformance = serde_json::from_str(&js).map_err(|x| Failure::new("json_read_back", format!("the JSON file cannot be read back into a result: {}", x)))?;
        check_xml(&xml, &epj)?;
        check_plain_with(&txt, &epj, 8.0 * crate::tol::EPS32)?;
        check_json(&epj, true)?;
        ensure!(run.stdout.trim_end().ends_with(txt.trim_end()), "txt_equals_stdout", "the --txt file is not the report printed on stdout");
        // the files describe the evaluation of the inputs given: compare with an in-process run
        let comps = parse_sound(&e.b)?;
        let f = prepare_sound(&e.f)?.strip(&comps);
        let ep = energy_performance(&comps, &f, e.k, e.area, e.lm).map_err(|x| Failure::new("harness", x.to_string()))?;
        let b = ep.balance_m2.we.b;
        let j = epj.balance_m2.we.b;
        let lines = crate::model::lines_from_components(&comps);
        let sc = crate::tol::Scales::from_inputs(&lines, e.b.n, &crate::model::FTable::from_factors(&f), e.area as f64);
        let noise = 2.0 * crate::tol::tol(sc.tot_weighted, sc.n) / e.area as f64;
        for (name, x, y) in [("ren", j.ren, b.ren), ("nren", j.nren, b.nren), ("co2", j.co2, b.co2)] {
            ensure!((x - y).abs() as f64 <= 0.0015 + noise + 2e-5 * (y.abs() as f64), "cli_result", "the JSON file reports C_ep {} = {} but evaluating the same inputs in process gives {}", name, x, y);
        }
        Ok(())
    })();
    run.cleanup();
    res
}
