//! C01 Energy is conserved per carrier and time step (invariants over one result).

use proptest::strategy::BoxedStrategy;
use serde_json::Value;

use cteepbd::types::BalanceCarrier;

use crate::common::*;
use crate::dom::*;
use crate::engine::*;
use crate::model::carrier_flows;
use crate::tol::{tol, EPS32};
use crate::{ensure, fail};

pub struct C01;

fn v64(v: &[f32]) -> Vec<f64> {
    v.iter().map(|x| *x as f64).collect()
}

pub fn check_carrier(car: Car, b: &BalanceCarrier, n: usize, n_sum: usize, s: f64, ctx: &mut Ctx) -> CheckResult {
    // n_sum: steps plus the lines beyond 64 (length of the f32 summation chains)
    let t = tol(s, n_sum);
    let nm = car.name();
    let vecs: [(&str, &Vec<f32>); 9] = [
        ("used.epus_t", &b.used.epus_t),
        ("used.nepus_t", &b.used.nepus_t),
        ("used.cgnus_t", &b.used.cgnus_t),
        ("prod.t", &b.prod.t),
        ("prod.epus_t", &b.prod.epus_t),
        ("exp.t", &b.exp.t),
        ("exp.grid_t", &b.exp.grid_t),
        ("exp.nepus_t", &b.exp.nepus_t),
        ("del.grid_t", &b.del.grid_t),
    ];
    for (name, v) in vecs {
        ensure!(v.len() == n, "lengths", "{nm}.{name} has {} steps, expected {}", v.len(), n);
        for (i, x) in v.iter().enumerate() {
            ensure!(x.is_finite(), "finite", "{nm}.{name}[{i}] = {x}");
            ensure!((*x as f64) >= -t, "nonneg", "{nm}.{name}[{i}] = {x:e} < 0 (tol {t:e})");
        }
    }
    ensure!(b.f_match.len() == n, "lengths", "{nm}.f_match has {} steps", b.f_match.len());
    ensure!(b.del.onst_t.len() == n && b.del.cgn_t.len() == n, "lengths", "{nm}.del vectors");
    let (mut r_lt, mut r_gt, mut r_both) = (false, false, false);
    for i in 0..n {
        let pr = b.prod.t[i] as f64;
        let pu = b.prod.epus_t[i] as f64;
        let ex = b.exp.t[i] as f64;
        let exn = b.exp.nepus_t[i] as f64;
        let exg = b.exp.grid_t[i] as f64;
        let us = b.used.epus_t[i] as f64;
        let nus = b.used.nepus_t[i] as f64;
        let dg = b.del.grid_t[i] as f64;
        // the identities of one step involve that step's quantities only (element-wise f32 arithmetic), so their
        // tolerance is a number of ulps of the step's own magnitude - not of the carrier's annual scale, under which
        // a whole step of a few kWh would disappear next to a step of 1e7 kWh
        let t = t.min(64.0 * EPS32 * (pr.abs() + us.abs() + nus.abs() + b.used.cgnus_t[i].abs() as f64) + 1e-9);
        ensure!((pr - (pu + ex)).abs() <= t, "prod=used+exp", "{nm}[{i}]: prod {pr} != used {pu} + exported {ex}");
        ensure!((ex - (exn + exg)).abs() <= t, "exp=nepus+grid", "{nm}[{i}]: exported {ex} != nEPB {exn} + grid {exg}");
        ensure!((us - (pu + dg)).abs() <= t, "use=used+del", "{nm}[{i}]: EPB use {us} != produced-and-used {pu} + delivered {dg}");
        ensure!(pu <= us.min(pr) + t, "used<=min", "{nm}[{i}]: produced-and-used {pu} > min(use {us}, prod {pr})");
        ensure!(exn <= nus + t, "exp_nepus<=nepus", "{nm}[{i}]: exported to nEPB {exn} > nEPB use {nus}");
        for (name, x) in [("prod.epus_t", pu), ("exp.t", ex), ("exp.nepus_t", exn), ("exp.grid_t", exg), ("del.grid_t", dg)] {
            ensure!(x >= -t, "nonneg", "{nm}.{name}[{i}] = {x:e} < 0 (step tolerance {t:e})");
        }
        if pr > 0.0 && us > 0.0 {
            if pr < us {
                r_lt = true;
            }
            if pr > us {
                r_gt = true;
            }
        }
        if exn > t && exg > t {
            r_both = true;
        }
    }
    // per source
    let mut sum_pu = vec![0.0f64; n];
    let mut sum_ex = vec![0.0f64; n];
    let mut sum_pr = vec![0.0f64; n];
    for (src, pj) in &b.prod.by_src_t {
        let sn = Src::from_lib(*src).name();
        let uj = match b.prod.epus_by_src_t.get(src) {
            Some(v) => v,
            None => fail!("by_src_keys", "{nm}: no produced-and-used vector for source {sn}"),
        };
        let ej = match b.exp.by_src_t.get(src) {
            Some(v) => v,
            None => fail!("by_src_keys", "{nm}: no exported vector for source {sn}"),
        };
        ensure!(pj.len() == n && uj.len() == n && ej.len() == n, "lengths", "{nm}.{sn} per-source vectors");
        for i in 0..n {
            let (p, u, e) = (pj[i] as f64, uj[i] as f64, ej[i] as f64);
            let t = t.min(64.0 * EPS32 * (b.prod.t[i].abs() as f64 + b.used.epus_t[i].abs() as f64 + b.used.nepus_t[i].abs() as f64) + 1e-9);
            ensure!((p - (u + e)).abs() <= t, "src:prod=used+exp", "{nm}.{sn}[{i}]: prod {p} != used {u} + exported {e}");
            ensure!(u >= -t && e >= -t, "src:nonneg", "{nm}.{sn}[{i}]: used {u:e}, exported {e:e}");
            sum_pu[i] += u;
            sum_ex[i] += e;
            sum_pr[i] += p;
        }
        let an = b.prod.by_src_an.get(src).cloned().unwrap_or(f32::NAN) as f64;
        ensure!((an - v64(pj).iter().sum::<f64>()).abs() <= t, "an=sum", "{nm}.prod.by_src_an.{sn}");
        let an = b.prod.epus_by_src_an.get(src).cloned().unwrap_or(f32::NAN) as f64;
        ensure!((an - v64(uj).iter().sum::<f64>()).abs() <= t, "an=sum", "{nm}.prod.epus_by_src_an.{sn}");
        let an = b.exp.by_src_an.get(src).cloned().unwrap_or(f32::NAN) as f64;
        ensure!((an - v64(ej).iter().sum::<f64>()).abs() <= t, "an=sum", "{nm}.exp.by_src_an.{sn}");
    }
    for src in b.prod.epus_by_src_t.keys().chain(b.exp.by_src_t.keys()) {
        // a source that appears among the used/exported parts without having produced anything
        // must carry zeros
        if !b.prod.by_src_t.contains_key(src) {
            let z = b.prod.epus_by_src_t.get(src).map(|v| v.iter().all(|x| x.abs() as f64 <= t)).unwrap_or(true)
                && b.exp.by_src_t.get(src).map(|v| v.iter().all(|x| x.abs() as f64 <= t)).unwrap_or(true);
            ensure!(z, "by_src_keys", "{nm}: source {} used/exported without production", Src::from_lib(*src).name());
        }
    }
    for i in 0..n {
        let t = t.min(64.0 * EPS32 * (b.prod.t[i].abs() as f64 + b.used.epus_t[i].abs() as f64 + b.used.nepus_t[i].abs() as f64) + 1e-9);
        ensure!((sum_pu[i] - b.prod.epus_t[i] as f64).abs() <= t, "sum_src(used)=used", "{nm}[{i}]: Σ_j used_j {} != used {}", sum_pu[i], b.prod.epus_t[i]);
        ensure!((sum_ex[i] - b.exp.t[i] as f64).abs() <= t, "sum_src(exp)=exp", "{nm}[{i}]: Σ_j exp_j {} != exp {}", sum_ex[i], b.exp.t[i]);
        ensure!((sum_pr[i] - b.prod.t[i] as f64).abs() <= t, "sum_src(prod)=prod", "{nm}[{i}]: Σ_j prod_j {} != prod {}", sum_pr[i], b.prod.t[i]);
    }
    // annual = sum of the vector
    let ans: [(&str, f32, &Vec<f32>); 9] = [
        ("used.epus", b.used.epus_an, &b.used.epus_t),
        ("used.nepus", b.used.nepus_an, &b.used.nepus_t),
        ("used.cgnus", b.used.cgnus_an, &b.used.cgnus_t),
        ("prod", b.prod.an, &b.prod.t),
        ("prod.epus", b.prod.epus_an, &b.prod.epus_t),
        ("exp.grid", b.exp.grid_an, &b.exp.grid_t),
        ("exp.nepus", b.exp.nepus_an, &b.exp.nepus_t),
        ("del.grid", b.del.grid_an, &b.del.grid_t),
        ("del.onst", b.del.onst_an, &b.del.onst_t),
    ];
    for (name, an, v) in ans {
        let s: f64 = v64(v).iter().sum();
        ensure!((an as f64 - s).abs() <= t, "an=sum", "{nm}.{name}_an = {an} but Σ_t = {s}");
    }
    let s: f64 = v64(&b.exp.t).iter().sum();
    ensure!((b.exp.an as f64 - s).abs() <= t, "an=sum", "{nm}.exp.an = {} but Σ_t = {s}", b.exp.an);
    if (r_lt as u8 + r_gt as u8 + r_both as u8) >= 2 {
        ctx.nontrivial = true;
    }
    if r_lt {
        ctx.label("step:prod<use");
    }
    if r_gt {
        ctx.label("step:prod>use");
    }
    if r_both {
        ctx.label("step:exp_to_nepb_and_grid");
    }
    Ok(())
}

impl Prop for C01 {
    type Case = BFCase;
    const ID: &'static str = "C01";
    fn rule() -> String {
        "cases = building() x factor_case() x k_exp x area x load matching (proptest strategies, DESIGN 3.1/3.2); \
         non-trivial = some carrier has production and EPB use and at least two of {a step with prod<use, a step with prod>use, \
         a step exporting to nEPB and to the grid}; distinct = hash of the whole case"
            .into()
    }
    fn assumptions() -> Vec<String> {
        vec![
            "values zero or >= 0.01 kWh, non-negative CONSUMO/PRODUCCION/AUX (the property's domain)".into(),
            "tolerance (100+4n)*eps32*S + 1e-6, S = sum of |inputs| of the carrier".into(),
            "auxiliary-bearing systems are assignable (single EPB service, or SALIDA data)".into(),
        ]
    }
    fn cases(tier: Tier) -> u32 {
        tier.pick(4_000, 800_000)
    }
    fn strategy(tier: Tier) -> BoxedStrategy<BFCase> {
        let mut p = params(tier);
        // per-step identities are where a step of a few kWh next to a step of 1e7 kWh matters
        p.mag_w = 12;
        bf_case(p, 50)
    }
    fn describe(c: &BFCase) -> Value {
        c.describe()
    }
    fn check(c: &BFCase, ctx: &mut Ctx) -> CheckResult {
        let inp = inputs(&c.b, &c.f)?;
        let ep = eval_sound(&inp.comps, &inp.factors, c.k, c.area, c.lm)?;
        let n = c.b.n;
        for t in &c.b.tags {
            ctx.label(t.clone());
        }
        // every carrier declared by a use or production line gets a balance (a carrier that only
        // has auxiliary energy is C06's claim, not checked here)
        let got = cars_of_ep(&ep);
        for l in &inp.lines {
            if let crate::model::MKind::Used { .. } | crate::model::MKind::Prod { .. } = l.kind {
                let car = l.carrier().unwrap();
                ensure!(got.contains(&car), "carriers", "carrier {} is declared but has no balance", car.name());
            }
        }
        let declared = crate::model::carriers_of(&inp.lines);
        for car in &got {
            ensure!(declared.contains(car), "carriers", "balance for undeclared carrier {}", car.name());
        }
        ensure!(crate::flat::carrier_keys_ok(&ep), "carriers", "balance_cr key differs from its carrier field");
        for car in got {
            let b = &ep.balance_cr[&car.to_lib()];
            // inputs faithfully accumulated (recomputed from the component list)
            let m = carrier_flows(car, &inp.lines, n, c.lm);
            let s = m.s_energy;
            let n_sum = n + inp.lines.len().saturating_sub(64);
            let t = tol(s, n_sum);
            for i in 0..n {
                ensure!((b.used.epus_t[i] as f64 - m.epus_t[i]).abs() <= t, "inputs", "{}[{i}]: EPB use {} != Σ lines {}", car.name(), b.used.epus_t[i], m.epus_t[i]);
                ensure!((b.used.nepus_t[i] as f64 - m.nepus_t[i]).abs() <= t, "inputs", "{}[{i}]: nEPB use {} != Σ lines {}", car.name(), b.used.nepus_t[i], m.nepus_t[i]);
                ensure!((b.used.cgnus_t[i] as f64 - m.cgnus_t[i]).abs() <= t, "inputs", "{}[{i}]: cogeneration input {} != Σ lines {}", car.name(), b.used.cgnus_t[i], m.cgnus_t[i]);
                ensure!((b.prod.t[i] as f64 - m.pr_t[i]).abs() <= t, "inputs", "{}[{i}]: production {} != Σ lines {}", car.name(), b.prod.t[i], m.pr_t[i]);
            }
            for (src, v) in &m.pr_by_src_t {
                let lv = match b.prod.by_src_t.get(&src.to_lib()) {
                    Some(v) => v,
                    None => fail!("inputs", "{}: production source {} missing", car.name(), src.name()),
                };
                for i in 0..n {
                    ensure!((lv[i] as f64 - v[i]).abs() <= t, "inputs", "{}.{}[{i}]: {} != Σ lines {}", car.name(), src.name(), lv[i], v[i]);
                }
            }
            ensure!(b.prod.by_src_t.len() == m.pr_by_src_t.len(), "inputs", "{}: invented production source", car.name());
            check_carrier(car, b, n, n_sum, s, ctx)?;
        }
        Ok(())
    }
}
