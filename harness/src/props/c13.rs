//! C13 Renewable energy ratios are proper fractions and perimeters are nested.

use proptest::prelude::*;
use serde_json::Value;

use crate::common::*;
use crate::dom::*;
use crate::engine::*;
use crate::fgen::regulatory;
use crate::gen::{area_s, building, Kind};
use crate::tol::{ratio_tol, tol};
use crate::{ensure, fail};

pub struct C13;

impl Prop for C13 {
    type Case = BFCase;
    const ID: &'static str = "C13";
    fn rule() -> String {
        "cases = building() (non-negative values) x regulatory factor set (4 locations, user RED1/RED2 >= 0) x k_exp = 0 x load matching; \
         oracle = rer == ren/(ren+nren) of we.b; total primary energy T >= 1e-3 S => 0 <= rer <= 1 and 0 <= rer_onst <= rer_nrb <= rer; T == 0 => all three 0; 0 < |T| < 1e-3 S skipped and counted; \
         non-trivial = T above noise and the building mixes >= 2 of {on-site carrier, nearby carrier, distant carrier, PV, cogeneration}"
            .into()
    }
    fn assumptions() -> Vec<String> {
        vec![
            "ratio tolerance 2 tol/T + 4 eps32 (DESIGN 3.4)".into(),
            "known findings KF-C13-onst-export and KF-C13-nrb-cogen-export excuse only the named sub-assertions under their signatures".into(),
        ]
    }
    fn cases(tier: Tier) -> u32 {
        tier.pick(4_000, 600_000)
    }
    fn strategy(tier: Tier) -> BoxedStrategy<BFCase> {
        let p = params(tier);
        (building(&p), regulatory(), area_s(), any::<bool>()).prop_map(|(b, f, area, lm)| BFCase { b, f, k: 0.0, area, lm }).boxed()
    }
    fn describe(c: &BFCase) -> Value {
        c.describe()
    }
    fn check(c: &BFCase, ctx: &mut Ctx) -> CheckResult {
        let inp = inputs(&c.b, &c.f)?;
        crate::common::label_long(ctx, &c.b);
        let sc = inp.scales(c.area);
        let ep = eval_sound(&inp.comps, &inp.factors, 0.0, c.area, c.lm)?;
        let (ren, nren) = (ep.balance.we.b.ren as f64, ep.balance.we.b.nren as f64);
        let t = ren + nren;
        let s = sc.tot_weighted;
        let (rer, nrb, onst) = (ep.rer as f64, ep.rer_nrb as f64, ep.rer_onst as f64);
        ensure!(rer.is_finite() && nrb.is_finite() && onst.is_finite(), "finite", "RER values {} / {} / {}", rer, nrb, onst);
        if ep.balance.we.b.ren + ep.balance.we.b.nren == 0.0 {
            ensure!(ep.rer == 0.0 && ep.rer_nrb == 0.0 && ep.rer_onst == 0.0, "zero_total", "total primary energy is 0 but RER values are {} / {} / {}", rer, nrb, onst);
            ctx.label("total_zero");
            return Ok(());
        }
        if !(t >= 1e-3 * s) {
            ctx.skip("total_is_rounding_noise");
            return Ok(());
        }
        let rt = ratio_tol(tol(s, sc.n), t);
        ensure!((rer - ren / t).abs() <= rt, "rer_definition", "RER = {} but ren/(ren+nren) = {}", rer, ren / t);
        ensure!(rer >= -rt && rer <= 1.0 + rt, "rer_in_unit_interval", "RER = {} with ren {} nren {}", rer, ren, nren);
        // signatures of the known findings (flows the failing quantities do not depend on)
        let el = ep.balance_cr.get(&Car::ELECTRICIDAD.to_lib());
        let noise = tol(sc.s_energy(Some(Car::ELECTRICIDAD)), sc.n);
        let exp_pv = el.and_then(|b| b.exp.by_src_an.get(&Src::EL_INSITU.to_lib())).cloned().unwrap_or(0.0) as f64;
        let exp_chp = el.and_then(|b| b.exp.by_src_an.get(&Src::EL_COGEN.to_lib())).cloned().unwrap_or(0.0) as f64;
        let non_nearby_fuel = c.b.lines.iter().any(|l| matches!(&l.kind, Kind::Used { srv: Srv::COGEN, car } if !car.is_nearby()));
        let onsite_fuel = c.b.lines.iter().any(|l| matches!(&l.kind, Kind::Used { srv: Srv::COGEN, car } if car.is_onsite()));
        let sig_onst_cgn = exp_chp > noise && onsite_fuel;
        let sig_onst = exp_pv > noise;
        let sig_nrb = exp_chp > noise && non_nearby_fuel;
        let mut sub = |name: &str, ok: bool, msg: String, ctx: &mut Ctx| -> CheckResult {
            if ok {
                return Ok(());
            }
            let excused = match name {
                "onst<=nrb" => {
                    (sig_onst && ctx.excuse("KF-C13-onst-export", msg.clone()))
                        || (sig_nrb && ctx.excuse("KF-C13-nrb-cogen-export", msg.clone()))
                        || (sig_onst_cgn && ctx.excuse("KF-C13-onst-cogen-onsite-fuel-export", msg.clone()))
                }
                "onst<=1" => (sig_onst && ctx.excuse("KF-C13-onst-export", msg.clone())) || (sig_onst_cgn && ctx.excuse("KF-C13-onst-cogen-onsite-fuel-export", msg.clone())),
                "nrb>=0" => sig_nrb && ctx.excuse("KF-C13-nrb-cogen-export", msg.clone()),
                _ => false,
            };
            if excused {
                Ok(())
            } else {
                Err(Failure::new(name, msg))
            }
        };
        sub("onst>=0", onst >= -rt, format!("RER_onst = {} < 0", onst), ctx)?;
        sub("nrb>=0", nrb >= -rt, format!("RER_nrb = {} < 0 (exported cogenerated electricity {} kWh)", nrb, exp_chp), ctx)?;
        sub("onst<=1", onst <= 1.0 + rt, format!("RER_onst = {} > 1 (exported on-site electricity {} kWh)", onst, exp_pv), ctx)?;
        sub("onst<=nrb", onst <= nrb + 2.0 * rt, format!("RER_onst = {} > RER_nrb = {} (exported on-site electricity {} kWh, exported cogenerated electricity {} kWh)", onst, nrb, exp_pv, exp_chp), ctx)?;
        sub("nrb<=rer", nrb <= rer + 2.0 * rt, format!("RER_nrb = {} > RER = {}", nrb, rer), ctx)?;
        if sig_onst {
            ctx.count("cases_under_signature(KF-C13-onst-export)", 1);
        }
        if sig_nrb {
            ctx.count("cases_under_signature(KF-C13-nrb-cogen-export)", 1);
        }
        if sig_onst_cgn {
            ctx.count("cases_under_signature(KF-C13-onst-cogen-onsite-fuel-export)", 1);
        }
        // classification
        let mut kinds = 0;
        let cars: Vec<Car> = ep.balance_cr.iter().filter(|(_, b)| b.used.epus_an > 0.0).map(|(c, _)| Car::from_lib(*c)).collect();
        if cars.iter().any(|c| c.is_onsite()) {
            kinds += 1;
        }
        if cars.iter().any(|c| c.is_nearby() && !c.is_onsite()) {
            kinds += 1;
        }
        if cars.iter().any(|c| !c.is_nearby()) {
            kinds += 1;
        }
        if ep.balance.prod.by_src.get(&Src::EL_INSITU.to_lib()).cloned().unwrap_or(0.0) > 0.0 {
            kinds += 1;
            ctx.label("pv");
        }
        if ep.balance.prod.by_src.get(&Src::EL_COGEN.to_lib()).cloned().unwrap_or(0.0) > 0.0 {
            kinds += 1;
            ctx.label("cogeneration");
        }
        if kinds >= 2 {
            ctx.nontrivial = true;
        }
        let _ = fail_unused;
        Ok(())
    }
}

#[allow(dead_code)]
fn fail_unused() -> CheckResult {
    fail!("unused", "unused")
}
