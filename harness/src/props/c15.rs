//! C15 The renewable share of DHW demand is a fraction that depends only on DHW supply.

use proptest::prelude::*;
use proptest::sample::select;
use serde::{Deserialize, Serialize};
use serde_json::Value;

use cteepbd::cte::{fraccion_renovable_acs_nrb, incorpora_demanda_renovable_acs_nrb};
use cteepbd::types::EnergyPerformance;

use crate::common::*;
use crate::dhw::*;
use crate::dom::*;
use crate::engine::*;
use crate::gen::{cents_f32, Building, Kind, Line};
use crate::xform::scale;
use crate::{ensure, fail};

pub struct C15;

#[derive(Clone, Debug, Serialize, Deserialize)]
pub struct Case {
    pub d: DhwCase,
    /// cogeneration in the base building: the closed form is not applied, the invariances are
    pub cogen: Option<(Car, Vec<u32>)>,
    pub extra_nepb: (Car, Vec<u32>),
    pub extra_other: (Srv, Car, Vec<u32>),
    pub k2: f32,
    pub pow: u8,
    /// reference area of the base evaluation and of the "another area" variant
    #[serde(default = "one")]
    pub area: f32,
    #[serde(default = "one")]
    pub area2: f32,
}

fn one() -> f32 {
    1.0
}

fn base_building(c: &Case) -> Building {
    let mut b = c.d.building();
    if let Some((fuel, chp)) = &c.cogen {
        let n = c.d.n;
        let v: Vec<f32> = (0..n).map(|t| cents_f32(chp[t % chp.len()] as i64)).collect();
        let fin: Vec<f32> = (0..n).map(|t| cents_f32(chp[t % chp.len()] as i64 * 5 / 2)).collect();
        b.lines.push(Line { id: 30, kind: Kind::Prod { src: Src::EL_COGEN }, vals: v, comment: String::new() });
        b.lines.push(Line { id: 30, kind: Kind::Used { srv: Srv::COGEN, car: *fuel }, vals: fin, comment: String::new() });
    }
    b
}

fn eval_area(b: &Building, c: &Case, k: f32, area: f32) -> Result<EnergyPerformance, Failure> {
    let inp = inputs(b, &c.d.factors())?;
    eval_sound(&inp.comps, &inp.factors, k, area, c.d.lm)
}

fn eval(b: &Building, c: &Case, k: f32) -> Result<EnergyPerformance, Failure> {
    eval_area(b, c, k, c.area)
}


impl Prop for C15 {
    type Case = Case;
    const ID: &'static str = "C15";
    fn rule() -> String {
        "cases = DHW grammar: 1-4 suppliers among {direct electric, heat pump (el + ambient, optionally low-SCOP excluded), solar thermal, RED1/RED2 with user factors, fossil boiler with efficiency, BIOMASA / BIOMASADENSIFICADA boiler with or without SALIDA}, \
         per-step values, demand consistent with the useful heat supplied (or absent / zero: non-computable classes), PV of any size shared with another service's electricity, AUX on the DHW system, other services, nEPB uses, 1-12 steps, regulatory factors with user RED1/RED2, 30 %: a cogeneration unit with 1-3 fuels (nearby and distant, own profiles, steps without electricity) whose electricity is used after the PV, plus an optional second unit added to the base building (invariances only); \
         oracle = closed-form fraction (f64) vs fraccion_renovable_acs_nrb within 1e-4, value in [0,1], an error (any) exactly in the non-computable classes, misc map content, and invariance under added nEPB lines, added non-electric lines of other services, another k_exp, another reference area and scaling by 2^k; \
         non-trivial = >= 2 suppliers and (PV shared with another service, or AUX, or biomass)"
            .into()
    }
    fn assumptions() -> Vec<String> {
        vec![
            "closed form applies the documented assumptions of the indicator (efficiency 1 for nearby non-biomass carriers and on-site electricity; biomass part by subtraction or from declared SALIDA)".into(),
            "RED1/RED2 user factors have ren + nren > 0 (a share is undefined otherwise)".into(),
            "two biomass types without SALIDA are generated only together with SALIDA-less error expectation 'biomass_without_output' when not inferable".into(),
        ]
    }
    fn cases(tier: Tier) -> u32 {
        tier.pick(4_000, 500_000)
    }
    fn strategy(tier: Tier) -> BoxedStrategy<Case> {
        let maxn = tier.pick(12usize, 12usize);
        (
            dhw_case(maxn),
            proptest::option::weighted(0.15, (select(vec![Car::GASNATURAL, Car::BIOMASA]), proptest::collection::vec(0u32..=50_000, 1..=4))),
            (select(vec![Car::ELECTRICIDAD, Car::GASNATURAL, Car::EAMBIENTE, Car::BIOMASA, Car::RED1]), proptest::collection::vec(0u32..=100_000, 1..=4)),
            (select(vec![Srv::CAL, Srv::REF, Srv::VEN, Srv::ILU]), select(vec![Car::GASNATURAL, Car::BIOMASA, Car::BIOMASADENSIFICADA, Car::RED2, Car::EAMBIENTE, Car::CARBON]), proptest::collection::vec(0u32..=100_000, 1..=4)),
            crate::gen::kexp_s(),
            1u8..=8,
            (select(vec![1.0f32, 1.0, 0.5, 37.5, 100.0, 8192.0, 1e5]), select(vec![1.0f32, 0.01, 2.0, 250.0, 1e4, 1e6])),
        )
            .prop_map(|(d, cogen, extra_nepb, extra_other, k2, pow, (area, area2))| Case { d, cogen, extra_nepb, extra_other, k2, pow, area, area2 })
            .boxed()
    }
    fn describe(c: &Case) -> Value {
        serde_json::json!({
            "components": base_building(c).render(),
            "factors": c.d.factors().describe(),
            "k_exp": c.d.k, "load_matching": c.d.lm,
            "expected": format!("{:?}", c.d.expected()),
            "extra_nepb": format!("{:?}", c.extra_nepb), "extra_other": format!("{:?}", c.extra_other), "k2": c.k2, "scale": 2f32.powi(c.pow as i32),
        })
    }
    fn check(c: &Case, ctx: &mut Ctx) -> CheckResult {
        let b = base_building(c);
        let n = c.d.n;
        let ep = eval(&b, c, c.d.k)?;
        let got = match catch(|| fraccion_renovable_acs_nrb(&ep)) {
            Ok(r) => r,
            Err(p) => fail!("panic", "fraccion_renovable_acs_nrb panicked: {}", p),
        };
        let expect = c.d.expected();
        // closed form (not with cogeneration)
        if c.cogen.is_none() {
            match (&got, &expect) {
                (Ok(v), Ok(e)) => {
                    ensure!(v.is_finite(), "finite", "fraction is {}", v);
                    // f32 noise: the auxiliary share 1 - aux/el is a difference of nearly equal numbers
                    // when almost all DHW electricity is auxiliary energy; scale = DHW inputs / demand
                    let dem = ep.balance.needs.ACS.unwrap_or(0.0).abs() as f64;
                    let s_dhw: f64 = b.lines.iter().filter(|l| !matches!(l.kind, Kind::Used { srv: Srv::NEPB, .. })).map(|l| l.vals.iter().map(|x| x.abs() as f64).sum::<f64>()).sum();
                    // (16 + 2 n) ulp: the library's annual sums are plain f32 sums, whose rounding drifts by up to n/2 ulp
                    // (2.7e-4 relative was observed on an 8 760-step series of equal small values)
                    let tl = 1e-4 + (16.0 + 2.0 * n as f64) * crate::tol::EPS32 * s_dhw / dem.max(1e-12);
                    ensure!((*v as f64 - e).abs() <= tl, "closed_form", "reported renewable fraction {} but the closed form gives {} (tol {:e})", v, e, tl);
                    ensure!(*v as f64 >= -tl && *v as f64 <= 1.0 + tl, "in_unit_interval", "fraction {} outside [0, 1]", v);
                    ctx.label("value");
                }
                (Err(_), Err(class)) => {
                    // "it reports an error instead of a number": which error, and in which words, the statement
                    // leaves open (a reworded or re-ordered message is not a violation)
                    ctx.label(format!("err:{}", class));
                }
                (Ok(v), Err(class)) => fail!("error_expected", "a fraction ({}) is reported in the non-computable class {}", v, class),
                (Err(e), Ok(x)) => fail!("value_expected", "error `{}` but the mix is computable (closed form {})", e, x),
            }
        } else {
            ctx.label("cogeneration(invariance only)");
            if let Ok(v) = &got {
                ensure!(!v.is_nan(), "finite", "fraction is NaN");
            }
        }
        // misc map
        let ep2 = incorpora_demanda_renovable_acs_nrb(ep.clone());
        let misc = match &ep2.misc {
            Some(m) => m,
            None => fail!("misc", "no misc map after incorpora_demanda_renovable_acs_nrb"),
        };
        match &got {
            Ok(v) => {
                ensure!(misc.get("fraccion_renovable_demanda_acs_nrb") == Some(&format!("{:.3}", v)), "misc", "misc value {:?} for fraction {}", misc.get("fraccion_renovable_demanda_acs_nrb"), v);
                ensure!(!misc.contains_key("error_acs"), "misc", "error_acs stored together with a value");
            }
            Err(_) => {
                ensure!(misc.contains_key("error_acs"), "misc", "no error_acs stored for a non-computable case");
                ensure!(!misc.contains_key("fraccion_renovable_demanda_acs_nrb"), "misc", "a number is stored for a non-computable case");
            }
        }
        // "an error instead of a number": also when the result already carries the other entry
        // (a result that is completed a second time, e.g. after being read from JSON)
        let mut stale = ep2.clone();
        if let Some(mm) = stale.misc.as_mut() {
            mm.0.insert("error_acs".to_string(), "ERROR: antiguo".to_string());
            mm.0.insert("fraccion_renovable_demanda_acs_nrb".to_string(), "0.123".to_string());
        }
        let ep3 = incorpora_demanda_renovable_acs_nrb(stale);
        if let Some(m3) = &ep3.misc {
            let (has_v, has_e) = (m3.contains_key("fraccion_renovable_demanda_acs_nrb"), m3.contains_key("error_acs"));
            ensure!(has_v != has_e, "misc", "after completing a result that carried stale entries: value present = {}, error present = {}", has_v, has_e);
            ensure!(has_v == got.is_ok(), "misc", "stale entry kept: value present = {} but the indicator is {}", has_v, if got.is_ok() { "computable" } else { "not computable" });
        }
        // invariances
        let mut variants: Vec<(&str, Building, f32, f32)> = vec![];
        let cyc = |v: &Vec<u32>| -> Vec<f32> { (0..n).map(|t| cents_f32(v[t % v.len()] as i64)).collect() };
        let mut b1 = b.clone();
        b1.lines.push(Line { id: 41, kind: Kind::Used { srv: Srv::NEPB, car: c.extra_nepb.0 }, vals: cyc(&c.extra_nepb.1), comment: String::new() });
        variants.push(("added nEPB consumption", b1, c.d.k, 1.0));
        let mut b2 = b.clone();
        b2.lines.push(Line { id: 42, kind: Kind::Used { srv: c.extra_other.0, car: c.extra_other.1 }, vals: cyc(&c.extra_other.2), comment: String::new() });
        variants.push(("added non-electric consumption of another service", b2, c.d.k, 1.0));
        variants.push(("another k_exp", b.clone(), c.k2, 1.0));
        let cf = 2f32.powi(c.pow as i32);
        variants.push(("scaled building", scale(&b, cf), c.d.k, cf));
        variants.push(("another reference area", b.clone(), c.d.k, -1.0));
        for (what, bv, k, cf) in variants {
            let epv = if cf < 0.0 { eval_area(&bv, c, k, c.area2)? } else { eval(&bv, c, k)? };
            let gv = match catch(|| fraccion_renovable_acs_nrb(&epv)) {
                Ok(r) => r,
                Err(p) => fail!("panic", "fraccion_renovable_acs_nrb panicked: {}", p),
            };
            match (&got, &gv) {
                (Ok(a), Ok(bb)) => {
                    let dem = ep.balance.needs.ACS.unwrap_or(0.0).abs() as f64;
                    let s_dhw: f64 = b.lines.iter().map(|l| l.vals.iter().map(|x| x.abs() as f64).sum::<f64>()).sum();
                    let tl = 2e-5 + (16.0 + 2.0 * n as f64) * crate::tol::EPS32 * s_dhw / dem.max(1e-12);
                    let same = (a.is_nan() && bb.is_nan()) || ((a - bb).abs() as f64) <= tl;
                    ensure!(same, "invariance", "{}: fraction changes from {} to {}", what, a, bb);
                }
                (Err(_), Err(_)) => {}
                (Ok(a), Err(bb)) => fail!("invariance", "{}: fraction {} becomes error `{}`", what, a, bb),
                (Err(a), Ok(bb)) => fail!("invariance", "{}: error `{}` becomes fraction {}", what, a, bb),
            }
        }
        let shared_pv = c.d.pv.is_some() && c.d.other_el.is_some();
        if shared_pv {
            ctx.label("pv_shared");
        }
        if c.d.aux.is_some() {
            ctx.label("aux");
        }
        if c.d.has_biomass() {
            ctx.label("biomass");
        }
        if let Some(cg) = &c.d.cogen {
            ctx.label("cogeneration");
            if cg.fuels.len() >= 2 {
                ctx.label("cogeneration:multi_fuel");
            }
            if cg.el.iter().zip(0..).any(|(e, t)| *e == 0 && cg.fuels.iter().any(|(_, v)| v[t] > 0)) {
                ctx.label("cogeneration:fuel_without_electricity_step");
            }
        }
        if c.d.n_suppliers() >= 2 && (shared_pv || c.d.aux.is_some() || c.d.has_biomass()) {
            ctx.nontrivial = true;
        }
        Ok(())
    }
}
