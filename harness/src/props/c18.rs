//! C18 Components and factors survive being written out and read back.

use std::collections::BTreeMap;

use proptest::collection::vec;
use proptest::prelude::*;
use serde::{Deserialize, Serialize};
use serde_json::Value;

use cteepbd::{energy_performance, Components, Factors};

use crate::clidrv::*;
use crate::common::*;
use crate::engine::*;
use crate::fgen::FactorCase;
use crate::flat::flat;
use crate::gen::{f32_text, Kind};
use crate::layout::*;
use crate::model::{lines_from_components, MKind, MLine};
use crate::tol::{compare_flats, CmpOpts, EPS32};
use crate::{ensure, fail};

pub struct C18;

#[derive(Clone, Debug, Serialize, Deserialize)]
pub struct Case {
    pub base: BFCase,
    pub layout: Layout,
    pub metas: Vec<(String, String)>,
    pub comments: Vec<String>,
    pub cli: bool,
    /// how the program-level round trip passes k_exp and the area: 0 = again as options on the second run
    /// (any value); 1 = values the emitted metadata can hold exactly (one / two decimals), second run without
    /// options; 2 = as 1, and the input file repeats the CTE_* metadata keys with conflicting values
    #[serde(default)]
    pub cli_mode: u8,
}

fn comment_s() -> BoxedStrategy<String> {
    prop_oneof![
        2 => Just(String::new()),
        3 => "[A-Za-z0-9 _.;:()áñ#,=-]{1,16}".prop_map(|s| s.trim().trim_start_matches('#').trim().to_string()),
    ]
    .boxed()
}

fn meta_s() -> BoxedStrategy<(String, String)> {
    ("[A-Za-z_][A-Za-z0-9_]{0,10}", "[A-Za-z0-9 _.;:()áñ#,=-]{0,16}").prop_map(|(k, v)| (format!("X_{}", k), v.trim().to_string())).boxed()
}

pub fn effective(c: &Case) -> BFCase {
    let mut e = c.base.clone();
    for (i, l) in e.b.lines.iter_mut().enumerate() {
        if let Some(s) = c.comments.get(i) {
            if !s.contains("CTEEPBD_") {
                l.comment = s.clone();
            }
        }
    }
    e.b.meta = c.metas.clone();
    e
}

type GKey = (u8, i32, String);

fn gkey(l: &MLine) -> GKey {
    match &l.kind {
        MKind::Used { srv, car } => (0, l.id, format!("{}/{}", srv.name(), car.name())),
        MKind::Prod { src } => (1, l.id, src.name().to_string()),
        MKind::Aux { srv } => (2, l.id, srv.name().to_string()),
        MKind::Out { srv } => (3, l.id, srv.name().to_string()),
    }
}

/// components equal up to the printed precision (grouped by kind, id, tags)
pub fn same_components(a: &Components, b: &Components, n: usize) -> Result<f64, Failure> {
    let (la, lb) = (lines_from_components(a), lines_from_components(b));
    let group = |ls: &[MLine]| -> BTreeMap<GKey, (Vec<f64>, usize, f64)> {
        let mut m: BTreeMap<GKey, (Vec<f64>, usize, f64)> = BTreeMap::new();
        for l in ls {
            let e = m.entry(gkey(l)).or_insert_with(|| (vec![0.0; n], 0, 0.0));
            for t in 0..n.min(l.vals.len()) {
                e.0[t] += l.vals[t];
                e.2 += l.vals[t].abs();
            }
            e.1 += 1;
        }
        m
    };
    let (ga, gb) = (group(&la), group(&lb));
    // auxiliary lines per system (re-reading re-assigns them from the printed total)
    let aux_lines = |ls: &[MLine], id: i32| ls.iter().filter(|l| l.id == id && matches!(l.kind, MKind::Aux { .. })).count();
    let mut print_err = 0.0;
    let mut keys: Vec<&GKey> = ga.keys().chain(gb.keys()).collect();
    keys.sort();
    keys.dedup();
    for k in keys {
        let za = (vec![0.0; n], 0usize, 0.0);
        let (va, ca, sa) = ga.get(k).unwrap_or(&za);
        let (vb, cb, _) = gb.get(k).unwrap_or(&za);
        let extra = if k.0 == 2 { aux_lines(&la, k.1) + aux_lines(&lb, k.1) } else { 0 };
        // a completion line may leave a <= 0.01 residue that is completed again: production groups
        // of ambient / solar energy get one more printed value of slack
        let slack_lines = (*ca).max(*cb) + extra + if k.0 == 1 { 2 } else { 0 };
        let t = 0.005 * slack_lines as f64 * 1.0001 + 8.0 * EPS32 * sa + 1e-9;
        let present_both = ga.contains_key(k) && gb.contains_key(k);
        for i in 0..n {
            ensure!((va[i] - vb[i]).abs() <= t, "components_round_trip", "group {:?} step {}: {} before and {} after writing and reading back (tolerance {})", k, i, va[i], vb[i], t);
        }
        if !present_both {
            // a group may only appear / vanish if it is ~0 everywhere (checked above) and derived
            ensure!(k.0 == 1 || k.0 == 2, "components_round_trip", "group {:?} exists only on one side of the round trip", k);
        }
        print_err += 0.005 * slack_lines as f64 * n as f64;
    }
    Ok(print_err)
}

/// multiset of the non-empty comments of the components
fn comment_counts(c: &Components) -> BTreeMap<String, usize> {
    let mut m = BTreeMap::new();
    for e in c.data.iter() {
        let s = e.comment().to_string();
        if !s.is_empty() {
            *m.entry(s).or_insert(0usize) += 1;
        }
    }
    m
}

/// The user's comments must survive the round trip; the comments the program writes on the components it
/// generates itself (completion, re-assigned auxiliaries) may repeat. Which texts are the program's own is
/// decided by behaviour, not by wording: a text that the parsed components carry more often than the input
/// file does was written by the program.
fn comments_survive(input: &crate::gen::Building, parsed: &Components, back: &Components) -> CheckResult {
    let mut given: BTreeMap<String, usize> = BTreeMap::new();
    for l in &input.lines {
        let s = l.comment.trim().to_string();
        if !s.is_empty() {
            *given.entry(s).or_insert(0usize) += 1;
        }
    }
    let (c1, c2) = (comment_counts(parsed), comment_counts(back));
    let own = |s: &String| c1.get(s).cloned().unwrap_or(0) > given.get(s).cloned().unwrap_or(0);
    let mut keys: Vec<&String> = c1.keys().chain(c2.keys()).collect();
    keys.sort();
    keys.dedup();
    for s in keys {
        if own(s) {
            continue;
        }
        let (a, b) = (c1.get(s).cloned().unwrap_or(0), c2.get(s).cloned().unwrap_or(0));
        ensure!(a == b, "comments_round_trip", "comment `{}` is on {} components before and on {} after writing and reading back", s, a, b);
    }
    Ok(())
}

pub fn same_factors(a: &Factors, b: &Factors) -> CheckResult {
    ensure!(a.wdata.len() == b.wdata.len(), "factors_round_trip", "{} factors before and {} after writing and reading back", a.wdata.len(), b.wdata.len());
    for (x, y) in a.wdata.iter().zip(b.wdata.iter()) {
        ensure!(x.carrier == y.carrier && x.source == y.source && x.dest == y.dest && x.step == y.step, "factors_round_trip", "factor `{}` becomes `{}`", x, y);
        for (p, q) in [(x.ren, y.ren), (x.nren, y.nren), (x.co2, y.co2)] {
            ensure!((p - q).abs() <= 0.0005 * 1.001 + 2.0 * f32::EPSILON * p.abs(), "factors_round_trip", "factor `{}` becomes `{}`", x, y);
        }
        ensure!(x.comment == y.comment, "factors_round_trip", "comment of `{}` becomes `{}`", x, y.comment);
    }
    ensure!(format!("{:?}", a.wmeta) == format!("{:?}", b.wmeta), "factors_round_trip", "factor metadata {:?} become {:?}", a.wmeta, b.wmeta);
    Ok(())
}

impl Prop for C18 {
    type Case = Case;
    const ID: &'static str = "C18";
    fn rule() -> String {
        "cases = parseable component files from building() rendered with a generated layout (legacy lines without id, any spacing, comment lines, BOM, CRLF, header, demands before or after) with comments (incl. '#', ',', ':') and metadata, AUX / SALIDA / DEMANDA / completion cases, and prepared factor sets (regulatory and user files with comments); \
         oracle = c.to_string().parse() succeeds, same metadata, demands within 0.005 per step, components equal grouped by (kind, id, tags) within 0.005 per printed value, same multiset of user comments; f.to_string().parse() gives the same keys in the same order, values within 0.0005, same comments and metadata; \
         the evaluation of the read-back pair agrees with the original within the accumulated printing error; about 1-3 % of the cases run cteepbd --oc/--of and then re-run it on the emitted files; \
         non-trivial = the file has a demand, an auxiliary line on a multi-service system, a completion or a legacy line, and at least one comment"
            .into()
    }
    fn assumptions() -> Vec<String> {
        vec![
            "grouped (not 1:1) comparison: auxiliary lines lose their derived service tag on paper and get it back by re-assignment; a rounded completion line may leave a <= 0.01 residue that is completed again".into(),
            "input values have at most 2 decimals, so only derived values (completion, auxiliary shares) are rounded by printing".into(),
        ]
    }
    fn cases(tier: Tier) -> u32 {
        tier.pick(3_000, 300_000)
    }
    fn strategy(tier: Tier) -> BoxedStrategy<Case> {
        let mut p = params(tier);
        p.with_needs = true;
        p.env_heavy = true;
        p.huge_kwh = 100_000;
        p.fine = false;
        let cli_p = tier.pick(0.03, 0.03);
        (bf_case(p, 50), layout_s(), vec(meta_s(), 0..3), vec(comment_s(), 0..10), prop::bool::weighted(cli_p), (0u8..3, any::<u8>()))
            .prop_map(|(base, layout, mut metas, comments, cli, (cli_mode, dupsel))| {
                // one metadata list in eight repeats its first key with another value (both lines are data)
                if dupsel % 8 == 0 && !metas.is_empty() {
                    let (k, v) = metas[0].clone();
                    metas.push((k, format!("{} bis", v).trim().to_string()));
                }
                Case { base, layout, metas, comments, cli, cli_mode }
            })
            .boxed()
    }
    fn describe(c: &Case) -> Value {
        let e = effective(c);
        serde_json::json!({"components_file": render_layout(&e.b, &c.layout), "layout": describe_layout(&c.layout), "factors": e.f.describe(), "k_exp": e.k, "area": e.area, "load_matching": e.lm, "cli": c.cli})
    }
    fn check(c: &Case, ctx: &mut Ctx) -> CheckResult {
        let e = effective(c);
        crate::common::label_long(ctx, &e.b);
        let n = e.b.n;
        let text = render_layout(&e.b, &c.layout);
        let comps: Components = match text.parse() {
            Ok(c) => c,
            Err(x) => fail!("sound_input_rejected", "components file valid by construction was rejected: {}", x),
        };
        let printed = comps.to_string();
        let back: Components = match printed.parse() {
            Ok(c) => c,
            Err(x) => fail!("components_reparse", "the written components cannot be read back: {}", x),
        };
        // metadata
        let m1: Vec<(String, String)> = comps.meta.iter().map(|m| (m.key.clone(), m.value.clone())).collect();
        let m2: Vec<(String, String)> = back.meta.iter().map(|m| (m.key.clone(), m.value.clone())).collect();
        ensure!(m1 == m2, "meta_round_trip", "metadata {:?} become {:?}", m1, m2);
        let want: Vec<(String, String)> = e.b.meta.clone();
        ensure!(m1 == want, "meta_parsed", "metadata written {:?} but parsed as {:?}", want, m1);
        // demands
        for (name, a, b) in [("ACS", &comps.needs.ACS, &back.needs.ACS), ("CAL", &comps.needs.CAL, &back.needs.CAL), ("REF", &comps.needs.REF, &back.needs.REF)] {
            match (a, b) {
                (None, None) => {}
                (Some(x), Some(y)) => {
                    ensure!(x.len() == y.len(), "demand_round_trip", "{} demand changes length", name);
                    for i in 0..x.len() {
                        ensure!((x[i] - y[i]).abs() as f64 <= 0.005001 + 4.0 * EPS32 * x[i].abs() as f64, "demand_round_trip", "{} demand step {}: {} becomes {}", name, i, x[i], y[i]);
                    }
                }
                (Some(_), None) => fail!("demand_round_trip", "the {} demand is lost when the components are written and read back", name),
                (None, Some(_)) => fail!("demand_round_trip", "a {} demand appears", name),
            }
        }
        let print_err = same_components(&comps, &back, n)?;
        comments_survive(&e.b, &comps, &back)?;
        let c1: Vec<&str> = e.b.lines.iter().map(|l| l.comment.as_str()).filter(|s| !s.is_empty()).collect();
        // factors
        let f = prepare_sound(&e.f)?;
        let fback: Factors = match f.to_string().parse() {
            Ok(x) => x,
            Err(x) => fail!("factors_reparse", "the written factors cannot be read back: {}", x),
        };
        same_factors(&f, &fback)?;
        // read back the way the program reads a factors file (parsed and prepared again, no user values): every
        // factor of the set is still there with its value, to the three printed decimals
        match cteepbd::cte::wfactors_from_str(&f.to_string(), cteepbd::UserWF { red1: None, red2: None }, cteepbd::cte::CTE_USERWF) {
            Ok(again) => {
                for (i, x) in f.wdata.iter().enumerate() {
                    // (the first line with a key is the factor; later lines with the same key are inert)
                    if f.wdata[..i].iter().any(|w| w.carrier == x.carrier && w.source == x.source && w.dest == x.dest && w.step == x.step) {
                        continue;
                    }
                    let y = again.wdata.iter().find(|y| y.carrier == x.carrier && y.source == x.source && y.dest == x.dest && y.step == x.step);
                    let y = match y {
                        Some(y) => y,
                        None => fail!("factors_round_trip", "factor `{}` is lost when the written set is prepared again", x),
                    };
                    for (p, q) in [(x.ren, y.ren), (x.nren, y.nren), (x.co2, y.co2)] {
                        ensure!((p - q).abs() <= 0.0005 * 1.001 + 2.0 * f32::EPSILON * p.abs(), "factors_round_trip", "factor `{}` becomes `{}` when the written set is read and prepared again", x, y);
                    }
                }
            }
            Err(x) => fail!("factors_reparse", "the written factors cannot be prepared again: {}", x),
        }
        let stripped = f.clone().strip(&comps);
        let sback: Factors = match stripped.to_string().parse() {
            Ok(x) => x,
            Err(x) => fail!("factors_reparse", "the written (simplified) factors cannot be read back: {}", x),
        };
        same_factors(&stripped, &sback)?;
        // consequence: same evaluation
        let r1 = energy_performance(&comps, &f, e.k, e.area, e.lm);
        let r2 = energy_performance(&back, &fback, e.k, e.area, e.lm);
        match (r1, r2) {
            (Ok(a), Ok(b)) => {
                // the factor set kept in the result (with the derived cogeneration lines, source COGEN)
                let rback: Factors = match a.wfactors.to_string().parse() {
                    Ok(x) => x,
                    Err(x) => fail!("factors_reparse", "the factors held by the result cannot be read back once written: {}", x),
                };
                same_factors(&a.wfactors, &rback)?;
                if a.wfactors.wdata.iter().any(|x| x.source == cteepbd::types::Source::COGEN) {
                    ctx.label("cogen_factor_lines_round_trip");
                }
                let lines = lines_from_components(&comps);
                let ft = crate::model::FTable::from_factors(&f);
                let mut sc = crate::tol::Scales::from_inputs(&lines, n, &ft, e.area as f64);
                sc.needs = 1.0 + [&comps.needs.ACS, &comps.needs.CAL, &comps.needs.REF].iter().filter_map(|x| x.as_ref()).flat_map(|v| v.iter()).map(|x| x.abs() as f64).sum::<f64>();
                // accumulated printing error as an additional scale (its weighted effect is bounded
                // by print_err x max factor); expressed through the tolerance multiplier
                let maxf = crate::dom::ALL_CARS.iter().map(|c| ft.max_abs(*c)).fold(1.0, f64::max).max(a.wfactors.wdata.iter().map(|x| x.ren.abs().max(x.nren.abs()).max(x.co2.abs()) as f64).fold(1.0, f64::max));
                let perr = print_err + 0.005 * n as f64 * 3.0;
                // printing error of the factors themselves (zero for factors given in thousandths; a factor such as
                // 0.0004 prints as 0.000): each weighted figure is a sum of at most three flows times a factor
                let fq = f.wdata.iter().flat_map(|x| [x.ren, x.nren, x.co2]).map(|v| ((v as f64) - ((v as f64) * 1000.0).round() / 1000.0).abs()).fold(0.0f64, f64::max);
                let ferr = if fq > 1e-7 { (fq + 1e-7) * 3.0 * sc.tot_energy } else { 0.0 };
                let (fa, fb) = (flat(&a), flat(&b));
                let pick = |f: &crate::flat::Flat, by_srv: bool| -> crate::flat::Flat { f.iter().filter(|(k, e)| (e.kind == crate::flat::EK::Weighted && k.contains("_by_srv")) == by_srv).map(|(k, v)| (k.clone(), v.clone())).collect() };
                compare_flats(
                    &pick(&fa, false),
                    &pick(&fb, false),
                    &sc,
                    &CmpOpts { names: ("original", "read back"), sub: "same_evaluation", tol_mult: 2.0, slack_energy: 2.0 * perr, slack_weighted: 4.0 * perr * maxf + ferr, skip_ratio_vecs: true, ..Default::default() },
                )?;
                // weighted energy by service = carrier total x (use of the service / EPB use): ill
                // conditioned when the EPB use of a carrier is of the order of the printing error
                // (a large export credit spread over a use that printing rounds away); the slack is
                // the carrier's weighted magnitude x min(1, 4 perr / EPB use), summed over carriers
                let mut cond = 0.0;
                for bc in a.balance_cr.values() {
                    let w = [bc.we.a.ren, bc.we.a.nren, bc.we.a.co2, bc.we.b.ren, bc.we.b.nren, bc.we.b.co2].iter().fold(0.0f64, |m, x| m.max(x.abs() as f64));
                    let u = bc.used.epus_an as f64;
                    cond += w * if u > 0.0 { (4.0 * perr / u).min(1.0) } else { 1.0 };
                }
                compare_flats(
                    &pick(&fa, true),
                    &pick(&fb, true),
                    &sc,
                    &CmpOpts { names: ("original", "read back"), sub: "same_evaluation_by_service", tol_mult: 2.0, slack_weighted: 4.0 * perr * maxf + 2.0 * cond + ferr, ..Default::default() },
                )?;
            }
            (Err(_), Err(_)) => {}
            (Ok(_), Err(x)) => fail!("same_evaluation", "the read-back components / factors cannot be evaluated: {}", x),
            (Err(x), Ok(_)) => fail!("same_evaluation", "the original cannot be evaluated ({}) but the read-back pair can", x),
        }
        if c.cli {
            check_cli(&e, &text, c.cli_mode, ctx)?;
            ctx.label(format!("cli_mode_{}", c.cli_mode));
            ctx.label("cli_run");
        }
        // classification
        let has_aux_multi = e.b.tags.iter().any(|t| t == "sys:aux_multi");
        let completion = crate::common::completion_happened(&e.b, &comps);
        let legacy = c.layout.omit_id0 && e.b.lines.iter().any(|l| l.id == 0 && !matches!(l.kind, Kind::Out { .. }));
        let has_comment = !c1.is_empty();
        if legacy {
            ctx.label("legacy_lines");
        }
        if completion {
            ctx.label("completion");
        }
        if !e.b.needs.is_empty() {
            ctx.label("demand");
        }
        if (!e.b.needs.is_empty() || has_aux_multi || completion || legacy) && has_comment {
            ctx.nontrivial = true;
        }
        Ok(())
    }
}

/// cteepbd --oc a --of b, then cteepbd -c a -f b: same report numbers
pub fn check_cli(e: &BFCase, text: &str, mode: u8, ctx: &mut Ctx) -> CheckResult {
    // the emitted metadata record the area with two decimals: below 0.01 m2 the emitted value is
    // 0.00 and the program refuses its own file (precision of the metadata, see DESIGN section 5)
    if e.area < 0.01 {
        ctx.skip("cli_area_below_metadata_precision");
        return Ok(());
    }
    // modes 1 and 2: k_exp and area are values the emitted metadata hold exactly, and the second run gets
    // them from there ("a building evaluated from the files saved with --oc / --of gives the same results")
    let mut e = e.clone();
    let mut text = text.to_string();
    if mode >= 1 {
        e.k = format!("{:.1}", e.k).parse::<f32>().unwrap();
        e.area = format!("{:.2}", e.area).parse::<f32>().unwrap().max(0.01);
    }
    if mode >= 1 {
        // a user factor given as an option while the file's metadata say otherwise: the option is what the first run
        // uses and what the emitted files must carry
        let mut m = String::new();
        if matches!(&e.f, FactorCase::Regulatory { red1: Some(_), .. } | FactorCase::UserFile { red1: Some(_), .. }) {
            m.push_str("#META CTE_RED1: 0.321, 0.654, 0.987\n");
        }
        if matches!(&e.f, FactorCase::Regulatory { red2: Some(_), .. } | FactorCase::UserFile { red2: Some(_), .. }) {
            m.push_str("#META CTE_RED2: 0.123, 0.456, 0.789\n");
        }
        text = match text.strip_prefix('\u{feff}') {
            Some(rest) => format!("\u{feff}{}{}", m, rest),
            None => format!("{}{}", m, text),
        };
    }
    if mode >= 2 {
        // conflicting repeated keys (files stitched together from several sources); the options of the first
        // run win whatever the program makes of repeated keys, and the emitted file must say so to a reader
        let mut dup = format!("#META CTE_AREAREF: {:.2}\n#META CTE_AREAREF: {:.2}\n#META CTE_KEXP: {:.1}\n#META CTE_KEXP: {:.1}\n", e.area + 7.5, e.area * 3.0 + 1.0, 1.0 - e.k, if e.k < 0.5 { 0.7 } else { 0.2 });
        let has_user_red1 = matches!(&e.f, FactorCase::Regulatory { red1: Some(_), .. } | FactorCase::UserFile { red1: Some(_), .. });
        if has_user_red1 {
            dup.push_str("#META CTE_RED1: 0.111, 0.222, 0.333\n#META CTE_RED1: 0.900, 0.800, 0.700\n");
        }
        text = match text.strip_prefix('\u{feff}') {
            Some(rest) => format!("\u{feff}{}{}", dup, rest),
            None => format!("{}{}", dup, text),
        };
    }
    let e = &e;
    let text = text.as_str();
    let mut args: Vec<String> = vec!["-c".into(), "comp.csv".into(), format!("--kexp={}", f32_text(e.k)), format!("--arearef={}", f32_text(e.area))];
    let mut files = vec![("comp.csv".to_string(), text.as_bytes().to_vec())];
    let (red1, red2) = match &e.f {
        FactorCase::Regulatory { loc, red1, red2 } => {
            args.push("-l".into());
            args.push(loc.clone());
            (red1, red2)
        }
        FactorCase::UserFile { red1, red2, .. } => {
            args.push("-f".into());
            args.push("fact.csv".into());
            files.push(("fact.csv".to_string(), e.f.file_text().unwrap().into_bytes()));
            (red1, red2)
        }
    };
    for (flag, r) in [("--red1", red1), ("--red2", red2)] {
        if let Some(t) = r {
            args.push(flag.into());
            for x in t {
                args.push(f32_text(*x));
            }
        }
    }
    if e.lm {
        args.push("--load_matching".into());
    }
    // with user factors in play the factor sets are kept whole (-F), so that the comparison of the factors of the
    // two runs covers RED1 / RED2 whether or not the building uses those carriers
    let keep_all = mode >= 1 && (red1.is_some() || red2.is_some());
    if keep_all {
        args.push("-F".into());
    }
    let mut args1 = args.clone();
    args1.extend(["--oc".to_string(), "a.csv".to_string(), "--of".to_string(), "b.csv".to_string(), "--json".to_string(), "j1.json".to_string()]);
    let run1 = run_cli_checked(&args1, &files).map_err(|x| Failure::new("harness", x))?;
    let res = (|| -> CheckResult {
        ensure!(!run1.timed_out && run1.signal.is_none() && !run1.stderr.contains("panicked at"), "cli_crash", "{}", run1.summary());
        ensure!(run1.status == Some(0), "cli_status", "cteepbd failed on a valid building: {}", run1.summary());
        let a = run1.file("a.csv").ok_or_else(|| Failure::new("cli_files", "--oc file was not written"))?;
        let b = run1.file("b.csv").ok_or_else(|| Failure::new("cli_files", "--of file was not written"))?;
        // second run from the emitted files only (k_exp and area come from the emitted metadata,
        // at their printed precision: pass them again as options to compare like with like)
        let mut args2: Vec<String> = vec!["-c".into(), "a.csv".into(), "-f".into(), "b.csv".into()];
        if mode == 0 {
            args2.push(format!("--kexp={}", f32_text(e.k)));
            args2.push(format!("--arearef={}", f32_text(e.area)));
        }
        if keep_all {
            args2.push("-F".into());
        }
        args2.push("--json".into());
        args2.push("j2.json".into());
        let j1 = run1.file("j1.json");
        if e.lm {
            args2.push("--load_matching".into());
        }
        let run2 = run_cli_checked(&args2, &[("a.csv".to_string(), a.into_bytes()), ("b.csv".to_string(), b.into_bytes())]).map_err(|x| Failure::new("harness", x))?;
        let r = (|| -> CheckResult {
            ensure!(!run2.timed_out && run2.signal.is_none() && !run2.stderr.contains("panicked at"), "cli_crash", "second run: {}", run2.summary());
            ensure!(run2.status == Some(0), "cli_rerun_status", "cteepbd fails on the files it emitted itself: {}", run2.summary());
            // the weighting factors the second run works with are the ones the first run used (to the three
            // decimals of the emitted file), key by key
            {
                let fmap = |txt: Option<String>| -> Option<BTreeMap<String, [f64; 3]>> {
                    let v: serde_json::Value = serde_json::from_str(&txt?).ok()?;
                    let mut m = BTreeMap::new();
                    for x in v.get("wfactors")?.get("wdata")?.as_array()? {
                        let k = format!("{}, {}, {}, {}", x.get("carrier")?.as_str()?, x.get("source")?.as_str()?, x.get("dest")?.as_str()?, x.get("step")?.as_str()?);
                        m.entry(k).or_insert([x.get("ren")?.as_f64()?, x.get("nren")?.as_f64()?, x.get("co2")?.as_f64()?]);
                    }
                    Some(m)
                };
                let (m1, m2) = (fmap(j1.clone()), fmap(run2.file("j2.json")));
                let (m1, m2) = match (m1, m2) {
                    (Some(a), Some(b)) => (a, b),
                    _ => fail!("cli_files", "a --json file of one of the two runs is missing or has no wfactors"),
                };
                for (k, a) in &m1 {
                    // (the factors of cogenerated electricity are derived again from the re-read components, whose
                    // printing error they amplify without bound when the cogenerated amount is small: not compared)
                    if k.contains(", COGEN,") {
                        continue;
                    }
                    if let Some(b) = m2.get(k) {
                        for j in 0..3 {
                            ensure!((a[j] - b[j]).abs() <= 0.00051 + 1e-6 * a[j].abs(), "cli_same_factors", "factor `{}`: the original run used {:?}, the run from the emitted files uses {:?}", k, a, b);
                        }
                    }
                }
            }
            if mode >= 1 {
                for (prefix, want) in [("Área de referencia (", format!("Área de referencia (metadatos) [m2]: {:.2}", e.area)), ("Factor de exportación (", format!("Factor de exportación (metadatos) [-]: {:.1}", e.k))] {
                    let got = run2.stdout.lines().find(|l| l.starts_with(prefix)).unwrap_or("");
                    let same_number = match (got.rsplit_once(':').and_then(|(_, v)| v.trim().parse::<f64>().ok()), want.rsplit_once(':').and_then(|(_, v)| v.trim().parse::<f64>().ok())) {
                        (Some(a), Some(b)) => (a - b).abs() <= 1e-9 + 1e-6 * b.abs(),
                        _ => false,
                    };
                    ensure!(got == want || (got.contains("(metadatos)") && same_number), "cli_recorded_parameters", "the run on the emitted files prints `{}`; the original run used `{}`", got, want);
                }
            }
            // RER lines compared only when they are far from 0/0 (a total within printing error of
            // zero makes them ratios of residues)
            let rep = |s: &str| -> Option<String> { s.find("** Eficiencia energética").map(|i| s[i..].lines().filter(|l| !l.starts_with("RER")).collect::<Vec<_>>().join("\n")) };
            let (p1, p2) = (rep(&run1.stdout), rep(&run2.stdout));
            let (p1, p2) = match (p1, p2) {
                (Some(a), Some(b)) => (a, b),
                _ => fail!("cli_report", "no report section in one of the two runs"),
            };
            let (r1, r2) = (crate::props::c17::parse_report(&p1), crate::props::c17::parse_report(&p2));
            ensure!(r1.lists.len() == r2.lists.len(), "cli_same_report", "the report from the emitted files has another number of tables");
            // bound: printing errors of the emitted components, per m2, weighted
            let n = e.b.n as f64;
            let nl = (e.b.lines.len() + 8) as f64;
            // accumulated printing error of the emitted energies [kWh]; its weighted effect is bounded by
            // the largest factor in use (the derived cogeneration factor included), and the by-service
            // tables are as ill conditioned as in the in-process comparison above: a carrier whose EPB
            // use is of the order of the printing error spreads its whole weighted energy differently
            let perr = 0.005 * nl * n * 3.0;
            let mut fq = 0.0f64;
            let mut tot_e = 0.0f64;
            let (maxf, cond) = match inputs(&e.b, &e.f).and_then(|inp| eval_sound(&inp.comps, &inp.factors, e.k, e.area, e.lm)) {
                Ok(ep) => {
                    let maxf = ep.wfactors.wdata.iter().map(|x| x.ren.abs().max(x.nren.abs()).max(x.co2.abs()) as f64).fold(1.0, f64::max);
                    // printing error of the factors (zero for thousandths) and the energy it multiplies
                    fq = ep.wfactors.wdata.iter().flat_map(|x| [x.ren, x.nren, x.co2]).map(|v| ((v as f64) - ((v as f64) * 1000.0).round() / 1000.0).abs()).fold(0.0f64, f64::max);
                    tot_e = ep.balance_cr.values().map(|b| (b.used.epus_an + b.used.nepus_an + b.used.cgnus_an + b.prod.an) as f64).sum();
                    let mut cond = 0.0;
                    for bc in ep.balance_cr.values() {
                        let w = [bc.we.a.ren, bc.we.a.nren, bc.we.a.co2, bc.we.b.ren, bc.we.b.nren, bc.we.b.co2].iter().fold(0.0f64, |m, x| m.max(x.abs() as f64));
                        let u = bc.used.epus_an as f64;
                        cond += w * if u > 0.0 { (4.0 * perr / u).min(1.0) } else { 1.0 };
                    }
                    (maxf, cond)
                }
                Err(_) => (1.0, 0.0),
            };
            let ferr = if fq > 1e-7 { (fq + 1e-7) * 3.0 * tot_e } else { 0.0 };
            let bound = (perr * 3.0 * maxf + 2.0 * cond + ferr) / e.area as f64 + 0.011;
            let scale: f64 = r1.all_numbers.iter().fold(0.0f64, |m, x| m.max(x.abs()));
            // entry by entry; a table entry missing on one side reads as zero (a carrier whose whole
            // use is below the printed precision disappears from the by-carrier tables)
            let (m1, m2) = (crate::props::c17::report_map(&r1), crate::props::c17::report_map(&r2));
            let mut keys: Vec<&String> = m1.keys().chain(m2.keys()).collect();
            keys.sort();
            keys.dedup();
            for k in keys {
                // the DHW share uses the ratio ren / (ren + nren) of a factor, which printing destroys for a factor
                // below the three printed decimals (0.0001, 0, 0.0001 -> 0.000, 0.000, 0.000): not compared then
                if fq > 1e-7 && k.contains("Porcentaje renovable") {
                    continue;
                }
                let empty = vec![];
                let (a, b) = (m1.get(k).unwrap_or(&empty), m2.get(k).unwrap_or(&empty));
                if k.starts_with("d:") {
                    ensure!(a.len() == b.len(), "cli_same_report", "demand line `{}` is {:?} in the original run and {:?} from the emitted files", k, a, b);
                }
                for i in 0..a.len().max(b.len()) {
                    let (x, y) = (a.get(i).cloned().unwrap_or(0.0), b.get(i).cloned().unwrap_or(0.0));
                    ensure!((x - y).abs() <= bound + 1e-4 * scale, "cli_same_report", "`{}`: the original run reports {} and the run from the emitted files {} (bound {})", k, x, y, bound);
                }
            }
            Ok(())
        })();
        run2.cleanup();
        r
    })();
    run1.cleanup();
    res
}
