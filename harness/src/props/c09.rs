//! C09 Annual results do not depend on how time is laid out (permutation / subdivision of steps).

use proptest::collection::vec;
use proptest::prelude::*;
use proptest::sample::select;
use serde::{Deserialize, Serialize};
use serde_json::Value;

use crate::common::*;
use crate::engine::*;
use crate::flat::{flat, Flat, EK};
use crate::tol::{compare_flats, ratio_tol, tol, CmpOpts};
use crate::xform::*;
use crate::{ensure, fail};

pub struct C09;

#[derive(Clone, Debug, Serialize, Deserialize)]
pub struct Case {
    pub base: BFCase,
    pub keys: Vec<u16>,
    pub m: usize,
}

fn annual_only(f: &Flat) -> Flat {
    f.iter().filter(|(_, e)| !matches!(e.kind, EK::StepVec | EK::RatioVec)).map(|(k, v)| (k.clone(), v.clone())).collect()
}

impl Prop for C09 {
    type Case = Case;
    const ID: &'static str = "C09";
    fn rule() -> String {
        "cases = building() (cogeneration and load matching over-weighted) x factor_case() x a permutation of the steps x subdivision m in {2,3,4,5,8}; \
         three evaluations (base, permuted, subdivided); oracle = every annual field equal within tolerance, per-step vectors follow the permutation / carry 1/m per sub-step, f_match unchanged; \
         non-trivial = >= 2 steps whose production/use relation differs and (cogeneration or load matching or export)"
            .into()
    }
    fn assumptions() -> Vec<String> {
        vec![
            "sub-step values stay >= 0.00125 kWh (0.01/8): the library's absolute 1e-3 production-share threshold is C11's concern".into(),
            "v/m is rounded to f32 (relative 2^-24), covered by the tolerance".into(),
        ]
    }
    fn cases(tier: Tier) -> u32 {
        tier.pick(3_000, 400_000)
    }
    fn strategy(tier: Tier) -> BoxedStrategy<Case> {
        let mut p = params(tier);
        p.cogen_heavy = true;
        p.max_steps = tier.pick(12, 24);
        // subdivision is where a rule about the number of steps shows (a series crossing 8 760 steps): 12 % long series
        p.long_w = tier.pick(60, 10);
        (bf_case(p, 50), vec(any::<u16>(), 24), select(vec![2usize, 3, 4, 5, 8]))
            .prop_map(|(base, keys, m)| Case { base, keys, m })
            .boxed()
    }
    fn describe(c: &Case) -> Value {
        let mut v = c.base.describe();
        v["perm"] = serde_json::json!(perm_from_keys(&c.keys, c.base.b.n));
        v["m"] = serde_json::json!(c.m);
        v
    }
    fn check(c: &Case, ctx: &mut Ctx) -> CheckResult {
        let b0 = &c.base.b;
        crate::common::label_long(ctx, b0);
        let n = b0.n;
        let perm = perm_from_keys(&c.keys, n);
        let bp = permute_steps(b0, &perm);
        let bs = subdivide(b0, c.m);
        let i0 = inputs(b0, &c.base.f)?;
        let ip = inputs(&bp, &c.base.f)?;
        let is = inputs(&bs, &c.base.f)?;
        let (k, area, lm) = (c.base.k, c.base.area, c.base.lm);
        let e0 = eval_sound(&i0.comps, &i0.factors, k, area, lm)?;
        let ep = eval_sound(&ip.comps, &ip.factors, k, area, lm)?;
        let es = eval_sound(&is.comps, &is.factors, k, area, lm)?;
        let mut sc = i0.scales(area);
        sc.n = n * c.m;
        let (f0, fp, fs) = (flat(&e0), flat(&ep), flat(&es));
        compare_flats(&annual_only(&f0), &annual_only(&fp), &sc, &CmpOpts { names: ("base", "permuted"), sub: "annual_permuted", tol_mult: 2.0, ..Default::default() })?;
        compare_flats(&annual_only(&f0), &annual_only(&fs), &sc, &CmpOpts { names: ("base", "subdivided"), sub: "annual_subdivided", tol_mult: 2.0, ..Default::default() })?;
        let den = (e0.balance.we.b.ren + e0.balance.we.b.nren).abs() as f64;
        if den >= 1e-3 * sc.tot_weighted && den > 0.0 {
            let rt = ratio_tol(tol(sc.tot_weighted, sc.n), den);
            for (which, o) in [("permuted", &ep), ("subdivided", &es)] {
                for (name, x, y) in [("rer", e0.rer, o.rer), ("rer_nrb", e0.rer_nrb, o.rer_nrb), ("rer_onst", e0.rer_onst, o.rer_onst)] {
                    ensure!(((x - y).abs() as f64) <= rt * (1.0 + x.abs().max(y.abs()) as f64), "ratios", "{}: {} in the base layout, {} in the {} one", name, x, y, which);
                }
            }
        } else {
            ctx.skip("ratio_den_noise");
        }
        // per-step vectors
        for (path, e) in &f0 {
            if !matches!(e.kind, EK::StepVec | EK::RatioVec) {
                continue;
            }
            let t = 2.0 * sc.tol_entry(e);
            let p = match fp.get(path) {
                Some(p) => p,
                None => fail!("step_keys", "`{}` absent after permuting the steps", path),
            };
            ensure!(p.vals.len() == n, "step_len", "`{}` has {} steps after permutation", path, p.vals.len());
            for i in 0..n {
                ensure!((p.vals[i] - e.vals[perm[i]]).abs() <= t, "steps_follow_permutation", "`{}`: permuted step {} = {} but base step {} = {}", path, i, p.vals[i], perm[i], e.vals[perm[i]]);
            }
            let s = match fs.get(path) {
                Some(s) => s,
                None => fail!("step_keys", "`{}` absent after subdividing the steps", path),
            };
            ensure!(s.vals.len() == n * c.m, "step_len", "`{}` has {} steps after subdivision by {}", path, s.vals.len(), c.m);
            for i in 0..n {
                for j in 0..c.m {
                    let expect = if e.kind == EK::RatioVec { e.vals[i] } else { e.vals[i] / c.m as f64 };
                    ensure!((s.vals[i * c.m + j] - expect).abs() <= t, "steps_follow_subdivision", "`{}`: sub-step {}.{} = {} but expected {}", path, i, j, s.vals[i * c.m + j], expect);
                }
            }
        }
        // classification
        let mut rel = std::collections::BTreeSet::new();
        for b in e0.balance_cr.values() {
            for i in 0..n {
                let (p, u) = (b.prod.t[i], b.used.epus_t[i]);
                if p > 0.0 || u > 0.0 {
                    rel.insert((b.carrier as u8 as usize, if p > u { 1 } else if p < u { -1 } else { 0 }));
                }
            }
        }
        let mixed = e0.balance_cr.values().any(|b| {
            let k = b.carrier as u8 as usize;
            rel.iter().filter(|(c, _)| *c == k).count() >= 2
        });
        let exports = e0.balance_cr.values().any(|b| b.exp.an != 0.0);
        let cogen = b0.has_cogen_prod();
        if cogen {
            ctx.label("cogeneration");
        }
        if lm {
            ctx.label("load_matching");
        }
        if perm.iter().enumerate().any(|(i, p)| i != *p) {
            ctx.label("nontrivial_permutation");
        }
        if n >= 2 && mixed && (cogen || lm || exports) {
            ctx.nontrivial = true;
        }
        Ok(())
    }
}
