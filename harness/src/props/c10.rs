//! C10 Results depend on what is declared, not on file layout or on the run.

use proptest::collection::vec;
use proptest::prelude::*;
use serde::{Deserialize, Serialize};
use serde_json::Value;

use cteepbd::cte::fraccion_renovable_acs_nrb;
use cteepbd::{energy_performance, Components};

use crate::clidrv::*;
use crate::common::*;
use crate::engine::*;
use crate::fgen::FactorCase;
use crate::flat::flat;
use crate::gen::{f32_text, Building, Kind};
use crate::layout::*;
use crate::model::lines_from_components;
use crate::tol::{compare_flats, ratio_tol, tol, CmpOpts};
use crate::{ensure, fail};

pub struct C10;

#[derive(Clone, Debug, Serialize, Deserialize)]
pub struct Case {
    pub base: BFCase,
    pub layout: Layout,
    pub rewrites: Vec<Rewrite>,
    pub cli: bool,
    /// when present, the building and factors come from the DHW grammar (several DHW suppliers,
    /// shared PV, multi-fuel cogeneration): the DHW indicator's branches are reached
    #[serde(default)]
    pub dhw: Option<crate::dhw::DhwCase>,
    /// program-level part: 0 = k_exp and area given as options; 1..=3 = given as metadata lines of the file (values the
    /// metadata hold exactly), at the top of the canonical file and, in the rewritten one, at the top (1), after the
    /// first component line (2) or at the end (3): metadata lines are lines, and reordering lines must not matter
    #[serde(default)]
    pub cli_meta: u8,
}

pub fn base_of(c: &Case) -> BFCase {
    match &c.dhw {
        Some(d) => BFCase { b: d.building(), f: d.factors(), k: d.k, area: c.base.area, lm: d.lm },
        None => c.base.clone(),
    }
}

pub fn rewritten(c: &Case) -> Building {
    let mut b = base_of(c).b;
    for r in &c.rewrites {
        b = apply_rewrite(&b, r);
    }
    b
}


impl Prop for C10 {
    type Case = Case;
    const ID: &'static str = "C10";
    fn rule() -> String {
        "cases = building() (with DEMANDA; 20 %: the DHW grammar with its multi-fuel cogeneration) x factor_case() x a composition of up to 4 rewritings (split a line into 2-3 lines with the same tags whose hundredths add up, same-sign pieces; bijective renumbering of system ids incl. to/from 0 and negative) \
         x a generated layout (permuted lines, id 0 written or omitted, spacing, leading / trailing whitespace, blank lines, # comment lines, vector,... header, BOM, CRLF, demands first or last, metadata on top or inside); \
         oracle = the canonical and the rewritten file both parse, all numeric fields / RER values / DHW fraction agree within tolerance, three repeated evaluations agree; \
         about 1-2 % of the cases run the binary twice on the same file (identical line labels, numbers within one printed unit) and on both files; \
         non-trivial = lines of >= 2 systems are reordered or a line is split, and the building has auxiliaries, a completion or >= 3 carriers"
            .into()
    }
    fn assumptions() -> Vec<String> {
        vec![
            "two evaluations sum in different HashMap orders: equality up to the DESIGN 3.4 tolerance".into(),
            "a line is split only when all its values are whole hundredths (so the pieces add up exactly on paper)".into(),
        ]
    }
    fn cases(tier: Tier) -> u32 {
        tier.pick(5_000, 300_000)
    }
    fn strategy(tier: Tier) -> BoxedStrategy<Case> {
        let mut p = params(tier);
        p.with_needs = true;
        let cli_p = tier.pick(0.015, 0.02);
        (bf_case(p, 40), layout_s(), vec(rewrite_s(), 0..=4), prop::bool::weighted(cli_p), proptest::option::weighted(0.2, crate::dhw::dhw_case(12)), 0u8..4)
            .prop_map(|(base, layout, rewrites, cli, dhw, cli_meta)| Case { base, layout, rewrites, cli, dhw, cli_meta })
            .boxed()
    }
    fn describe(c: &Case) -> Value {
        serde_json::json!({
            "canonical_file": base_of(c).b.render(),
            "rewritten_file": render_layout(&rewritten(c), &c.layout),
            "rewrites": format!("{:?}", c.rewrites),
            "layout": describe_layout(&c.layout),
            "factors": base_of(c).f.describe(), "k_exp": base_of(c).k, "area": c.base.area, "load_matching": base_of(c).lm, "cli": c.cli,
        })
    }
    fn check(c: &Case, ctx: &mut Ctx) -> CheckResult {
        let base = base_of(c);
        let e = &base;
        if c.dhw.is_some() {
            ctx.label("dhw_grammar");
        }
        let n = e.b.n;
        crate::common::label_long(ctx, &e.b);
        let t0 = e.b.render();
        let b1 = rewritten(c);
        let t1 = render_layout(&b1, &c.layout);
        let (c0, c1) = (t0.parse::<Components>(), t1.parse::<Components>());
        let (c0, c1) = match (c0, c1) {
            (Ok(a), Ok(b)) => (a, b),
            (Err(x), Err(_)) => fail!("sound_input_rejected", "components file valid by construction was rejected: {}", x),
            (Ok(_), Err(x)) => fail!("layout_changes_acceptance", "the canonical file is accepted and its rewriting is rejected: {}", x),
            (Err(x), Ok(_)) => fail!("layout_changes_acceptance", "the canonical file is rejected ({}) and its rewriting is accepted", x),
        };
        let f = prepare_sound(&e.f)?;
        let lines = lines_from_components(&c0);
        let ft = crate::model::FTable::from_factors(&f);
        let mut sc = crate::tol::Scales::from_inputs(&lines, n, &ft, e.area as f64);
        sc.needs = [&c0.needs.ACS, &c0.needs.CAL, &c0.needs.REF].iter().filter_map(|x| x.as_ref()).flat_map(|v| v.iter()).map(|x| x.abs() as f64).sum();
        let ev = |cc: &Components| energy_performance(cc, &f, e.k, e.area, e.lm);
        let (r0, r1) = (ev(&c0), ev(&c1));
        let (a, b) = match (r0, r1) {
            (Ok(a), Ok(b)) => (a, b),
            (Err(x), Err(_)) => fail!("sound_evaluation_failed", "{}", x),
            (Ok(_), Err(x)) => fail!("layout_changes_acceptance", "the canonical file evaluates and its rewriting fails: {}", x),
            (Err(x), Ok(_)) => fail!("layout_changes_acceptance", "the canonical file fails ({}) and its rewriting evaluates", x),
        };
        let fa = flat(&a);
        compare_flats(&fa, &flat(&b), &sc, &CmpOpts { names: ("canonical", "rewritten"), sub: "same_result", tol_mult: 2.0, ..Default::default() })?;
        let den = (a.balance.we.b.ren + a.balance.we.b.nren).abs() as f64;
        let ratios_ok = den >= 1e-3 * sc.tot_weighted && den > 0.0;
        let rt = if ratios_ok { ratio_tol(tol(sc.tot_weighted, sc.n), den) } else { f64::INFINITY };
        if !ratios_ok {
            ctx.skip("ratio_den_noise");
        }
        for (name, x, y) in [("rer", a.rer, b.rer), ("rer_nrb", a.rer_nrb, b.rer_nrb), ("rer_onst", a.rer_onst, b.rer_onst)] {
            ensure!(((x - y).abs() as f64) <= 2.0 * rt * (1.0 + x.abs().max(y.abs()) as f64), "same_result", "{}: {} for the canonical file, {} for the rewritten one", name, x, y);
        }
        // DHW indicator
        match (fraccion_renovable_acs_nrb(&a), fraccion_renovable_acs_nrb(&b)) {
            (Ok(x), Ok(y)) => {
                let dem = a.balance.needs.ACS.unwrap_or(0.0).abs() as f64;
                if (x.is_nan() && y.is_nan()) || dem < 1e-3 * sc.tot_energy {
                    ctx.skip("dhw_den_noise");
                } else {
                    let t = 4.0 * ratio_tol(tol(sc.tot_energy, sc.n), dem) + 1e-5;
                    ensure!(((x - y).abs() as f64) <= t, "same_dhw_fraction", "DHW renewable fraction {} for the canonical file, {} for the rewritten one", x, y);
                }
            }
            (Err(_), Err(_)) => {}
            (x, y) => fail!("same_dhw_fraction", "DHW fraction {:?} for the canonical file, {:?} for the rewritten one", x.map_err(|e| e.to_string()), y.map_err(|e| e.to_string())),
        }
        // repeated evaluations (each builds freshly keyed hash maps)
        for i in 0..2 {
            let again = t0.parse::<Components>().map_err(|x| Failure::new("repeat", format!("the same text is rejected on the {}-th repetition: {}", i + 2, x)))?;
            let r = ev(&again).map_err(|x| Failure::new("repeat", format!("the same input fails on the {}-th repetition: {}", i + 2, x)))?;
            compare_flats(&fa, &flat(&r), &sc, &CmpOpts { names: ("first run", "repetition"), sub: "repeatable", tol_mult: 2.0, ..Default::default() })?;
            for (name, x, y) in [("rer", a.rer, r.rer), ("rer_nrb", a.rer_nrb, r.rer_nrb), ("rer_onst", a.rer_onst, r.rer_onst)] {
                ensure!(((x - y).abs() as f64) <= 2.0 * rt * (1.0 + x.abs().max(y.abs()) as f64), "repeatable", "{}: {} then {}", name, x, y);
            }
            match (fraccion_renovable_acs_nrb(&a), fraccion_renovable_acs_nrb(&r)) {
                (Ok(x), Ok(y)) => {
                    let dem = a.balance.needs.ACS.unwrap_or(0.0).abs() as f64;
                    if !((x.is_nan() && y.is_nan()) || dem < 1e-3 * sc.tot_energy) {
                        let t = 4.0 * ratio_tol(tol(sc.tot_energy, sc.n), dem) + 1e-5;
                        ensure!(((x - y).abs() as f64) <= t, "repeatable", "DHW renewable fraction {} then {}", x, y);
                    }
                }
                (Err(_), Err(_)) => {}
                (x, y) => fail!("repeatable", "DHW fraction {:?} then {:?}", x.map_err(|e| e.to_string()), y.map_err(|e| e.to_string())),
            }
        }
        if c.cli {
            check_cli(e, &t0, &t1, &sc, !ratios_ok, c.cli_meta, ctx)?;
            ctx.label(format!("cli_meta_{}", c.cli_meta));
            ctx.label("cli_run");
        }
        // classification
        let split = c.rewrites.iter().any(|r| matches!(r, Rewrite::Split { .. }));
        let systems: std::collections::BTreeSet<i32> = e.b.lines.iter().map(|l| l.id).collect();
        let reordered = !c.layout.order.is_empty() && systems.len() >= 2;
        let completion = crate::common::completion_happened(&e.b, &c0);
        if split {
            ctx.label("split");
        }
        if c.rewrites.iter().any(|r| matches!(r, Rewrite::Renumber { .. })) {
            ctx.label("renumbered");
        }
        if reordered {
            ctx.label("reordered");
        }
        if c.layout.omit_id0 && b1.lines.iter().any(|l| l.id == 0 && !matches!(l.kind, Kind::Out { .. })) {
            ctx.label("id0_omitted");
        }
        if (reordered || split) && (e.b.has_aux() || completion || a.balance_cr.len() >= 3) {
            ctx.nontrivial = true;
        }
        Ok(())
    }
}

fn cli_args(e: &BFCase, file: &str, by_options: bool) -> (Vec<String>, Vec<(String, Vec<u8>)>) {
    let mut args: Vec<String> = vec!["-c".into(), file.into()];
    if by_options {
        args.push(format!("--kexp={}", f32_text(e.k)));
        args.push(format!("--arearef={}", f32_text(e.area)));
    }
    let mut files = vec![];
    let (red1, red2) = match &e.f {
        FactorCase::Regulatory { loc, red1, red2 } => {
            args.push("-l".into());
            args.push(loc.clone());
            (red1, red2)
        }
        FactorCase::UserFile { red1, red2, .. } => {
            args.push("-f".into());
            args.push("fact.csv".into());
            files.push(("fact.csv".to_string(), e.f.file_text().unwrap().into_bytes()));
            (red1, red2)
        }
    };
    for (flag, r) in [("--red1", red1), ("--red2", red2)] {
        if let Some(t) = r {
            args.push(flag.into());
            for x in t {
                args.push(f32_text(*x));
            }
        }
    }
    if e.lm {
        args.push("--load_matching".into());
    }
    (args, files)
}

/// the same file twice in two processes, and the rewritten file
/// `text` with two metadata lines (area, k_exp) at the top (pos 1), after the first component line (2) or at the end (3)
fn with_meta(text: &str, area: f32, k: f32, pos: u8) -> String {
    let nl = if text.contains("\r\n") { "\r\n" } else { "\n" };
    // the rewritten file also spells the metadata lines with other inner whitespace (blanks or tabs around the key
    // and the colon are whitespace like any other)
    let meta = match pos {
        2 => format!("#META CTE_AREAREF : {:.2}{}#META  CTE_KEXP :{:.1}{}", area, nl, k, nl),
        3 => format!("#META\tCTE_AREAREF\t:\t{:.2}{}#META CTE_KEXP:{:.1}  {}", area, nl, k, nl),
        _ => format!("#META CTE_AREAREF: {:.2}{}#META CTE_KEXP: {:.1}{}", area, nl, k, nl),
    };
    let (bom, body) = match text.strip_prefix('\u{feff}') {
        Some(rest) => ("\u{feff}", rest),
        None => ("", text),
    };
    match pos {
        2 => {
            // after the first line that is a component (not blank, not a comment, not the `vector` header)
            let mut out = String::new();
            let mut done = false;
            for l in body.split_inclusive('\n') {
                out.push_str(l);
                let t = l.trim();
                if !done && !t.is_empty() && !t.starts_with('#') && !t.to_lowercase().starts_with("vector") {
                    if !l.ends_with('\n') {
                        out.push_str(nl);
                    }
                    out.push_str(&meta);
                    done = true;
                }
            }
            if !done {
                out.push_str(&meta);
            }
            format!("{}{}", bom, out)
        }
        3 => format!("{}{}{}{}", bom, body, if body.ends_with('\n') || body.is_empty() { "" } else { nl }, meta),
        _ => format!("{}{}{}", bom, meta, body),
    }
}

fn check_cli(e: &BFCase, t0: &str, t1: &str, sc: &crate::tol::Scales, rer_is_noise: bool, cli_meta: u8, _ctx: &mut Ctx) -> CheckResult {
    if e.area <= 1e-3 {
        return Ok(());
    }
    // k_exp and area as metadata of the file: values the metadata hold exactly
    let mut e = e.clone();
    let (mut t0, mut t1) = (t0.to_string(), t1.to_string());
    if cli_meta >= 1 && e.area >= 0.01 {
        e.k = format!("{:.1}", e.k).parse::<f32>().unwrap();
        e.area = format!("{:.2}", e.area).parse::<f32>().unwrap().max(0.01);
        t0 = with_meta(&t0, e.area, e.k, 1);
        t1 = with_meta(&t1, e.area, e.k, cli_meta);
    }
    let by_options = !(cli_meta >= 1 && e.area >= 0.01);
    let e = &e;
    let (t0, t1) = (t0.as_str(), t1.as_str());
    let report = |args: &[String], files: &[(String, Vec<u8>)]| -> Result<crate::props::c17::Report, Failure> {
        let run = run_cli_checked(args, files).map_err(|x| Failure::new("harness", x))?;
        let r = (|| {
            ensure!(!run.timed_out && run.signal.is_none() && !run.stderr.contains("panicked at"), "cli_crash", "{}", run.summary());
            ensure!(run.status == Some(0), "cli_status", "cteepbd failed on a valid building: {}", run.summary());
            let i = run.stdout.find("** Eficiencia energética").ok_or_else(|| Failure::new("cli_report", "no report section"))?;
            // RER lines are ratios of residues when the total primary energy is noise
            // (and a printed ratio far outside [0, 1] - the perimeter ratios under the known findings - amplifies the
            // rounding of its denominator by its own magnitude: two processes print -26353.56 and -26329.29)
            let wild = |l: &str| l.rsplit('=').next().and_then(|v| v.trim().parse::<f64>().ok()).map(|v| v.abs() > 2.0).unwrap_or(false);
            let txt: String = run.stdout[i..].lines().filter(|l| !(l.starts_with("RER") && (rer_is_noise || wild(l)))).collect::<Vec<_>>().join("\n");
            Ok(crate::props::c17::parse_report(&txt))
        })();
        run.cleanup();
        r
    };
    let (a0, mut f0) = cli_args(e, "comp.csv", by_options);
    f0.push(("comp.csv".to_string(), t0.as_bytes().to_vec()));
    let r1 = report(&a0, &f0)?;
    let r2 = report(&a0, &f0)?;
    let (a1, mut f1) = cli_args(e, "rewritten.csv", by_options);
    f1.push(("rewritten.csv".to_string(), t1.as_bytes().to_vec()));
    let r3 = report(&a1, &f1)?;
    let noise = 2.0 * tol(sc.tot_weighted.max(sc.tot_energy), sc.n) / (e.area as f64) + 0.1001;
    for (what, other) in [("a second process on the same file", &r2), ("the rewritten file", &r3)] {
        ensure!(r1.labels == other.labels, "cli_same_labels", "the report of {} has different lines / table entries", what);
        ensure!(r1.all_numbers.len() == other.all_numbers.len(), "cli_same_labels", "the report of {} has a different amount of numbers", what);
        for (x, y) in r1.all_numbers.iter().zip(other.all_numbers.iter()) {
            ensure!((x - y).abs() <= noise + 2e-6 * x.abs(), "cli_same_numbers", "the first run prints {} and {} prints {}", x, what, y);
        }
    }
    Ok(())
}
