//! C12 On-site electricity is used first; load matching can only lower self-use.

use proptest::prelude::*;
use serde_json::Value;

use crate::common::*;
use crate::dom::*;
use crate::engine::*;
use crate::model::f_match;
use crate::tol::tol;
use crate::{ensure, fail};

pub struct C12;

impl Prop for C12 {
    type Case = BFCase;
    const ID: &'static str = "C12";
    fn rule() -> String {
        "cases = electricity-centred building() (regime-forced per step: no production, no use, PV >= use, PV < use <= PV+CHP, use > PV+CHP, PV == use, only CHP) x factor_case(); \
         each case is evaluated with load matching off and on; oracle = allocation inequalities per step, f_match formula and bounds, pairwise monotonicity on/off for every carrier; \
         non-trivial = on-site and cogenerated electricity both declared and >= 3 distinct regimes across the steps"
            .into()
    }
    fn assumptions() -> Vec<String> {
        vec!["tolerance (100+4n)*eps32*S + 1e-6 for energies, 2e-5 for the matching factor".into()]
    }
    fn cases(tier: Tier) -> u32 {
        tier.pick(4_000, 600_000)
    }
    fn strategy(tier: Tier) -> BoxedStrategy<BFCase> {
        let mut p = params(tier);
        p.regime_pct = 90;
        p.cogen_heavy = true;
        p.long_w = 40;
        bf_case(p, 30)
    }
    fn describe(c: &BFCase) -> Value {
        c.describe()
    }
    fn check(c: &BFCase, ctx: &mut Ctx) -> CheckResult {
        let inp = inputs(&c.b, &c.f)?;
        let sc = inp.scales(c.area);
        let n = c.b.n;
        let off = eval_sound(&inp.comps, &inp.factors, c.k, c.area, false)?;
        let on = eval_sound(&inp.comps, &inp.factors, c.k, c.area, true)?;
        for t in &c.b.tags {
            ctx.label(t.clone());
        }
        for (lm, ep) in [(false, &off), (true, &on)] {
            for b in ep.balance_cr.values() {
                let car = Car::from_lib(b.carrier);
                let t = tol(sc.s_energy(Some(car)), n);
                ensure!(b.f_match.len() == n, "f_match", "{}: f_match has {} steps", car.name(), b.f_match.len());
                for i in 0..n {
                    let f = b.f_match[i] as f64;
                    let (pr, us) = (b.prod.t[i] as f64, b.used.epus_t[i] as f64);
                    if !lm {
                        ensure!(b.f_match[i] == 1.0, "f_match_off", "{}[{i}]: f_match = {} without load matching", car.name(), f);
                    } else {
                        let expect = f_match(pr, us, true);
                        ensure!((f - expect).abs() <= 2e-5, "f_match_formula", "{}[{i}]: f_match = {} but formula (32) gives {} (production {}, use {})", car.name(), f, expect, pr, us);
                        ensure!(f >= 0.5 - 1e-6 && f <= 1.0 + 1e-6, "f_match_bounds", "{}[{i}]: f_match = {} outside [0.5, 1]", car.name(), f);
                    }
                    // produced-and-used never exceeds f * min(use, production)
                    let pu = b.prod.epus_t[i] as f64;
                    ensure!(pu <= f * us.min(pr) + t, "used<=f*min", "{}[{i}]: produced-and-used {} > f_match {} x min(use {}, production {})", car.name(), pu, f, us, pr);
                }
                if car == Car::ELECTRICIDAD {
                    let pv = b.prod.by_src_t.get(&Src::EL_INSITU.to_lib());
                    let chp = b.prod.by_src_t.get(&Src::EL_COGEN.to_lib());
                    let upv = b.prod.epus_by_src_t.get(&Src::EL_INSITU.to_lib());
                    let uchp = b.prod.epus_by_src_t.get(&Src::EL_COGEN.to_lib());
                    if pv.is_some() != upv.is_some() && pv.is_some() {
                        fail!("sources", "on-site electricity declared but no used part reported");
                    }
                    if chp.is_some() != uchp.is_some() && chp.is_some() {
                        fail!("sources", "cogenerated electricity declared but no used part reported");
                    }
                    for i in 0..n {
                        let f = b.f_match[i] as f64;
                        let us = b.used.epus_t[i] as f64;
                        let p = pv.map(|v| v[i] as f64).unwrap_or(0.0);
                        let q = chp.map(|v| v[i] as f64).unwrap_or(0.0);
                        let up = upv.map(|v| v[i] as f64).unwrap_or(0.0);
                        let uq = uchp.map(|v| v[i] as f64).unwrap_or(0.0);
                        ensure!(up >= -t && uq >= -t, "alloc_nonneg", "[{i}] allocations {} / {}", up, uq);
                        ensure!(up + uq <= us + t, "alloc<=use", "[{i}]: on-site {} + cogenerated {} allocated > EPB use {}", up, uq, us);
                        ensure!(up <= p + t && uq <= q + t, "alloc<=prod", "[{i}]: allocated {} / {} > produced {} / {}", up, uq, p, q);
                        if pv.is_some() && chp.is_some() {
                            ensure!(up >= f * p.min(us) - t, "pv_first", "[{i}]: on-site electricity allocated {} < f_match {} x min(PV {}, use {}): cogeneration is served before PV is exhausted", up, f, p, us);
                            ensure!(uq <= f * (us - p).max(0.0) + t, "chp_after_pv", "[{i}]: cogenerated electricity allocated {} > f_match {} x (use {} - PV {})", uq, f, us, p);
                        }
                    }
                }
            }
        }
        // pairwise: load matching never increases self-use nor decreases grid delivery
        for (k, boff) in &off.balance_cr {
            let car = Car::from_lib(*k);
            let bon = match on.balance_cr.get(k) {
                Some(b) => b,
                None => fail!("carriers", "{} has no balance with load matching", car.name()),
            };
            let t = tol(sc.s_energy(Some(car)), n);
            for i in 0..n {
                ensure!(bon.prod.epus_t[i] as f64 <= boff.prod.epus_t[i] as f64 + t, "lm_lowers_self_use", "{}[{i}]: produced-and-used {} with load matching > {} without", car.name(), bon.prod.epus_t[i], boff.prod.epus_t[i]);
                ensure!(bon.del.grid_t[i] as f64 >= boff.del.grid_t[i] as f64 - t, "lm_raises_delivery", "{}[{i}]: grid delivery {} with load matching < {} without", car.name(), bon.del.grid_t[i], boff.del.grid_t[i]);
                // inputs do not depend on the mode
                ensure!((bon.used.epus_t[i] - boff.used.epus_t[i]).abs() as f64 <= t && (bon.prod.t[i] - boff.prod.t[i]).abs() as f64 <= t, "lm_inputs", "{}[{i}]: use / production change with the load matching mode", car.name());
            }
        }
        // classification
        if let Some(b) = off.balance_cr.get(&Car::ELECTRICIDAD.to_lib()) {
            let pv = b.prod.by_src_t.get(&Src::EL_INSITU.to_lib());
            let chp = b.prod.by_src_t.get(&Src::EL_COGEN.to_lib());
            let mut regs = std::collections::BTreeSet::new();
            for i in 0..n {
                let us = b.used.epus_t[i];
                let p = pv.map(|v| v[i]).unwrap_or(0.0);
                let q = chp.map(|v| v[i]).unwrap_or(0.0);
                let r = if p + q == 0.0 {
                    "no_production"
                } else if us == 0.0 {
                    "no_use"
                } else if p == us {
                    "pv==use"
                } else if p > us {
                    "pv>use"
                } else if p == 0.0 {
                    "only_chp"
                } else if us <= p + q {
                    "pv<use<=pv+chp"
                } else {
                    "use>pv+chp"
                };
                regs.insert(r);
            }
            for r in &regs {
                ctx.label(format!("regime:{}", r));
            }
            if pv.is_some() && chp.is_some() && regs.len() >= 3 {
                ctx.nontrivial = true;
            }
        }
        Ok(())
    }
}
