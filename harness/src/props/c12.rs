//! C12 On-site electricity is used first; load matching can only lower self-use.

use proptest::prelude::*;
use serde_json::Value;

use crate::common::*;
use crate::dom::*;
use crate::engine::*;
use crate::model::f_match;
use crate::tol::tol;
use crate::{ensure, fail};

pub struct C12;

impl Prop for C12 {
    type Case = BFCase;
    const ID: &'static str = "C12";
    fn rule() -> String {
        "cases = electricity-centred building() (regime-forced per step: no production, no use, PV >= use, PV < use <= PV+CHP, use > PV+CHP, PV == use, only CHP) x factor_case(); \
         each case is evaluated with load matching off and on; oracle = allocation inequalities per step, f_match formula and bounds, pairwise monotonicity on/off for every carrier; \
         non-trivial = on-site and cogenerated electricity both declared and >= 3 distinct regimes across the steps"
            .into()
    }
    fn assumptions() -> Vec<String> {
        vec!["tolerance (100+4n)*eps32*S + 1e-6 for energies, 2e-5 for the matching factor".into()]
    }
    fn cases(tier: Tier) -> u32 {
        tier.pick(4_000, 600_000)
    }
    fn strategy(tier: Tier) -> BoxedStrategy<BFCase> {
        let mut p = params(tier);
        p.regime_pct = 90;
        p.cogen_heavy = true;
        p.long_w = tier.pick(40, 8);
        bf_case(p, 30)
    }
    fn describe(c: &BFCase) -> Value {
        c.describe()
    }
    fn check(c: &BFCase, ctx: &mut Ctx) -> CheckResult {
        let inp = inputs(&c.b, &c.f)?;
        let sc = inp.scales(c.area);
        let n = c.b.n;
        let off = eval_sound(&inp.comps, &inp.factors, c.k, c.area, false)?;
        let on = eval_sound(&inp.comps, &inp.factors, c.k, c.area, true)?;
        for t in &c.b.tags {
            ctx.label(t.clone());
        }
        for (lm, ep) in [(false, &off), (true, &on)] {
            for b in ep.balance_cr.values() {
                let car = Car::from_lib(b.carrier);
                let t = tol(sc.s_energy(Some(car)), sc.n);
                ensure!(b.f_match.len() == n, "f_match", "{}: f_match has {} steps", car.name(), b.f_match.len());
                for i in 0..n {
                    let f = b.f_match[i] as f64;
                    let (pr, us) = (b.prod.t[i] as f64, b.used.epus_t[i] as f64);
                    if !lm {
                        ensure!(b.f_match[i] == 1.0, "f_match_off", "{}[{i}]: f_match = {} without load matching", car.name(), f);
                    } else {
                        let expect = f_match(pr, us, true);
                        ensure!((f - expect).abs() <= 2e-5, "f_match_formula", "{}[{i}]: f_match = {} but formula (32) gives {} (production {}, use {})", car.name(), f, expect, pr, us);
                        ensure!(f >= 0.5 - 1e-6 && f <= 1.0 + 1e-6, "f_match_bounds", "{}[{i}]: f_match = {} outside [0.5, 1]", car.name(), f);
                    }
                    // produced-and-used never exceeds f * min(use, production)
                    let pu = b.prod.epus_t[i] as f64;
                    ensure!(pu <= f * us.min(pr) + t, "used<=f*min", "{}[{i}]: produced-and-used {} > f_match {} x min(use {}, production {})", car.name(), pu, f, us, pr);
                }
                if car == Car::ELECTRICIDAD {
                    let pv = b.prod.by_src_t.get(&Src::EL_INSITU.to_lib());
                    let chp = b.prod.by_src_t.get(&Src::EL_COGEN.to_lib());
                    let upv = b.prod.epus_by_src_t.get(&Src::EL_INSITU.to_lib());
                    let uchp = b.prod.epus_by_src_t.get(&Src::EL_COGEN.to_lib());
                    if pv.is_some() != upv.is_some() && pv.is_some() {
                        fail!("sources", "on-site electricity declared but no used part reported");
                    }
                    if chp.is_some() != uchp.is_some() && chp.is_some() {
                        fail!("sources", "cogenerated electricity declared but no used part reported");
                    }
                    for i in 0..n {
                        let f = b.f_match[i] as f64;
                        let us = b.used.epus_t[i] as f64;
                        let p = pv.map(|v| v[i] as f64).unwrap_or(0.0);
                        let q = chp.map(|v| v[i] as f64).unwrap_or(0.0);
                        let up = upv.map(|v| v[i] as f64).unwrap_or(0.0);
                        let uq = uchp.map(|v| v[i] as f64).unwrap_or(0.0);
                        ensure!(up >= -t && uq >= -t, "alloc_nonneg", "[{i}] allocations {} / {}", up, uq);
                        ensure!(up + uq <= us + t, "alloc<=use", "[{i}]: on-site {} + cogenerated {} allocated > EPB use {}", up, uq, us);
                        ensure!(up <= p + t && uq <= q + t, "alloc<=prod", "[{i}]: allocated {} / {} > produced {} / {}", up, uq, p, q);
                        if pv.is_some() && chp.is_some() {
                            ensure!(up >= f * p.min(us) - t, "pv_first", "[{i}]: on-site electricity allocated {} < f_match {} x min(PV {}, use {}): cogeneration is served before PV is exhausted", up, f, p, us);
                            ensure!(uq <= f * (us - p).max(0.0) + t, "chp_after_pv", "[{i}]: cogenerated electricity allocated {} > f_match {} x (use {} - PV {})", uq, f, us, p);
                        }
                    }
                }
            }
        }
        // pairwise: load matching never increases self-use nor decreases grid delivery
        for (k, boff) in &off.balance_cr {
            let car = Car::from_lib(*k);
            let bon = match on.balance_cr.get(k) {
                Some(b) => b,
                None => fail!("carriers", "{} has no balance with load matching", car.name()),
            };
            let t = tol(sc.s_energy(Some(car)), sc.n);
            for i in 0..n {
                ensure!(bon.prod.epus_t[i] as f64 <= boff.prod.epus_t[i] as f64 + t, "lm_lowers_self_use", "{}[{i}]: produced-and-used {} with load matching > {} without", car.name(), bon.prod.epus_t[i], boff.prod.epus_t[i]);
                ensure!(bon.del.grid_t[i] as f64 >= boff.del.grid_t[i] as f64 - t, "lm_raises_delivery", "{}[{i}]: grid delivery {} with load matching < {} without", car.name(), bon.del.grid_t[i], boff.del.grid_t[i]);
                // inputs do not depend on the mode
                ensure!((bon.used.epus_t[i] - boff.used.epus_t[i]).abs() as f64 <= t && (bon.prod.t[i] - boff.prod.t[i]).abs() as f64 <= t, "lm_inputs", "{}[{i}]: use / production change with the load matching mode", car.name());
            }
        }
        // classification
        if let Some(b) = off.balance_cr.get(&Car::ELECTRICIDAD.to_lib()) {
            let pv = b.prod.by_src_t.get(&Src::EL_INSITU.to_lib());
            let chp = b.prod.by_src_t.get(&Src::EL_COGEN.to_lib());
            let mut regs = std::collections::BTreeSet::new();
            for i in 0..n {
                let us = b.used.epus_t[i];
                let p = pv.map(|v| v[i]).unwrap_or(0.0);
                let q = chp.map(|v| v[i]).unwrap_or(0.0);
                let r = if p + q == 0.0 {
                    "no_production"
                } else if us == 0.0 {
                    "no_use"
                } else if p == us {
                    "pv==use"
                } else if p > us {
                    "pv>use"
                } else if p == 0.0 {
                    "only_chp"
                } else if us <= p + q {
                    "pv<use<=pv+chp"
                } else {
                    "use>pv+chp"
                };
                regs.insert(r);
            }
            for r in &regs {
                ctx.label(format!("regime:{}", r));
            }
            if pv.is_some() && chp.is_some() && regs.len() >= 3 {
                ctx.nontrivial = true;
            }
        }
        // load matching as a user gets it: the program's --load_matching flag must give the factors of the library
        // (a sample of the cases, chosen by a pure function of the case: every building whose only production is
        // cogenerated electricity, and one in forty of the others)
        let only_chp = on.balance_cr.values().all(|b| b.prod.by_src_an.iter().all(|(s, v)| *v == 0.0 || *s == Src::EL_COGEN.to_lib())) && on.balance_cr.values().any(|b| b.prod.an > 0.0);
        let pick = c.b.lines.iter().map(|l| l.vals.iter().map(|v| v.to_bits() as u64).sum::<u64>()).sum::<u64>() % 40 == 0;
        if c.b.n <= 96 && c.area > 1e-3 && (only_chp || pick) {
            check_cli(c, &on, ctx)?;
            ctx.label(if only_chp { "cli_run_only_chp" } else { "cli_run" });
        }
        Ok(())
    }
}

/// cteepbd --load_matching --json: f_match, used production and grid delivery per step as the library gives them
fn check_cli(c: &BFCase, on: &cteepbd::types::EnergyPerformance, _ctx: &mut Ctx) -> CheckResult {
    use crate::clidrv::*;
    use crate::fgen::FactorCase;
    let mut args: Vec<String> = vec!["-c".into(), "comp.csv".into(), format!("--kexp={}", crate::gen::f32_text(c.k)), format!("--arearef={}", crate::gen::f32_text(c.area)), "--load_matching".into(), "--json".into(), "out.json".into()];
    let mut files = vec![("comp.csv".to_string(), c.b.render().into_bytes())];
    let (red1, red2) = match &c.f {
        FactorCase::Regulatory { loc, red1, red2 } => {
            args.push("-l".into());
            args.push(loc.clone());
            (red1, red2)
        }
        FactorCase::UserFile { red1, red2, .. } => {
            args.push("-f".into());
            args.push("fact.csv".into());
            files.push(("fact.csv".to_string(), c.f.file_text().unwrap().into_bytes()));
            (red1, red2)
        }
    };
    for (flag, r) in [("--red1", red1), ("--red2", red2)] {
        if let Some(t) = r {
            args.push(flag.into());
            for x in t {
                args.push(crate::gen::f32_text(*x));
            }
        }
    }
    let run = run_cli_checked(&args, &files).map_err(|x| Failure::new("harness", x))?;
    let res = (|| -> CheckResult {
        ensure!(!run.timed_out && run.signal.is_none() && !run.stderr.contains("panicked at"), "cli_crash", "{}", run.summary());
        ensure!(run.status == Some(0), "cli_status", "cteepbd --load_matching failed on a valid building: {}", run.summary());
        let js = run.file("out.json").ok_or_else(|| Failure::new("cli_files", "out.json was not written"))?;
        let epj: cteepbd::types::EnergyPerformance = serde_json::from_str(&js).map_err(|x| Failure::new("cli_files", format!("the JSON file cannot be read back into a result: {}", x)))?;
        for (k, b) in &on.balance_cr {
            let car = Car::from_lib(*k);
            let j = match epj.balance_cr.get(k) {
                Some(j) => j,
                None => fail!("cli_load_matching", "{} has no balance in the program's result", car.name()),
            };
            ensure!(j.f_match.len() == b.f_match.len(), "cli_load_matching", "{}: f_match has {} steps in the program's result", car.name(), j.f_match.len());
            let s: f64 = (b.used.epus_an + b.used.nepus_an + b.used.cgnus_an + b.prod.an) as f64;
            let t = tol(s, b.f_match.len() + c.b.lines.len()) + 0.002;
            for i in 0..b.f_match.len() {
                ensure!((j.f_match[i] - b.f_match[i]).abs() <= 1.1e-3, "cli_load_matching", "{}[{i}]: the program run with --load_matching reports f_match = {} where the library gives {}", car.name(), j.f_match[i], b.f_match[i]);
                ensure!(((j.prod.epus_t[i] - b.prod.epus_t[i]).abs() as f64) <= t, "cli_load_matching", "{}[{i}]: produced-and-used energy {} from the program run with --load_matching, {} from the library", car.name(), j.prod.epus_t[i], b.prod.epus_t[i]);
                ensure!(((j.del.grid_t[i] - b.del.grid_t[i]).abs() as f64) <= t, "cli_load_matching", "{}[{i}]: grid delivery {} from the program run with --load_matching, {} from the library", car.name(), j.del.grid_t[i], b.del.grid_t[i]);
            }
        }
        Ok(())
    })();
    run.cleanup();
    res
}
