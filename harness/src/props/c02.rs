//! C02 Results equal the EN ISO 52000-1 balance equations evaluated independently.

use proptest::strategy::BoxedStrategy;
use serde_json::Value;

use cteepbd::energy_performance;
use cteepbd::error::EpbdError;

use crate::common::*;
use crate::dom::*;
use crate::engine::*;
use crate::flat::{flat, flat_leaf_count, json_result_leaf_count};
use crate::model::{evaluate, needs_of, MErr};
use crate::tol::{compare_flats, CmpOpts};
use crate::{ensure, fail};

pub struct C02;

/// The declared building as model lines, normalised by the harness' own models of the completion
/// (C05) and of the auxiliary split (C06): the end-to-end input of the equations. None when the
/// statement leaves a share undefined (auxiliary energy at a step where all outputs are zero).
pub fn own_lines(b: &crate::gen::Building) -> Option<Vec<crate::model::MLine>> {
    use crate::gen::Kind;
    use crate::model::{MKind, MLine};
    let n = b.n;
    let w = |v: &Vec<f32>| v.iter().map(|x| *x as f64).collect::<Vec<f64>>();
    let mut out: Vec<MLine> = vec![];
    for l in &b.lines {
        let kind = match &l.kind {
            Kind::Used { srv, car } => MKind::Used { srv: *srv, car: *car },
            Kind::Prod { src } => MKind::Prod { src: *src },
            Kind::Out { srv } => MKind::Out { srv: *srv },
            Kind::Aux => continue,
        };
        out.push(MLine { id: l.id, kind, vals: w(&l.vals), comment: String::new() });
    }
    // completion of ambient / solar production, per system and step
    for (car, src) in [(Car::EAMBIENTE, Src::EAMBIENTE), (Car::TERMOSOLAR, Src::TERMOSOLAR)] {
        let mut ids: Vec<i32> = out.iter().filter(|l| matches!(&l.kind, MKind::Used { car: c, .. } if *c == car)).map(|l| l.id).collect();
        ids.sort();
        ids.dedup();
        for id in ids {
            let mut extra = vec![0.0f64; n];
            for l in out.iter().filter(|l| l.id == id) {
                match &l.kind {
                    MKind::Used { car: c, .. } if *c == car => (0..n).for_each(|t| extra[t] += l.vals[t]),
                    MKind::Prod { src: s } if *s == src => (0..n).for_each(|t| extra[t] -= l.vals[t]),
                    _ => {}
                }
            }
            let extra: Vec<f64> = extra.iter().map(|x| x.max(0.0)).collect();
            if extra.iter().sum::<f64>() > 0.0 {
                out.push(MLine { id, kind: MKind::Prod { src }, vals: extra, comment: String::new() });
            }
        }
    }
    // auxiliary split
    let am = crate::props::c06::aux_model(b);
    for ((id, srv), exp) in &am.expect {
        let mut vals = vec![0.0f64; n];
        for t in 0..n {
            match exp[t] {
                Some(v) => vals[t] = v,
                None => {
                    if am.declared[id][t] > 0.0 {
                        return None;
                    }
                }
            }
        }
        out.push(MLine { id: *id, kind: MKind::Aux { srv: *srv }, vals, comment: String::new() });
    }
    Some(out)
}

impl Prop for C02 {
    type Case = BFCase;
    const ID: &'static str = "C02";
    fn rule() -> String {
        "cases = building() x factor_case() (70 % user files with distinct factors, 30 % regulatory) x k_exp in [0,1] x area x load matching; \
         oracle = f64 reference model of EN ISO 52000-1 (2),(9)-(14),(20)-(28),(32) compared with every numeric field of the result; \
         non-trivial = exports > 0 with k_exp not in {0,1}, or cogeneration with > 1 step, or exports to both destinations with different A_RED / A_NEPB factors"
            .into()
    }
    fn assumptions() -> Vec<String> {
        vec![
            "reference model reads the parsed and normalised component list (parsing itself is C05/C06)".into(),
            "tolerance (100+4n)*eps32*S + 1e-6 with S = sum|inputs| * max(1, max|factor|) per carrier (+ weighted cogeneration input for electricity)".into(),
            "RER compared only when total primary energy >= 1e-3*S".into(),
            "rer_nrb / rer_onst are not part of this oracle (C13)".into(),
            "user factor files contain no COGEN-source lines (removed from the format per CHANGELOG)".into(),
        ]
    }
    fn cases(tier: Tier) -> u32 {
        tier.pick(4_000, 1_000_000)
    }
    fn strategy(tier: Tier) -> BoxedStrategy<BFCase> {
        let mut p = params(tier);
        p.cogen_heavy = true;
        bf_case(p, 70)
    }
    fn describe(c: &BFCase) -> Value {
        c.describe()
    }
    fn check(c: &BFCase, ctx: &mut Ctx) -> CheckResult {
        let inp = inputs(&c.b, &c.f)?;
        let n = c.b.n;
        for t in &c.b.tags {
            ctx.label(t.clone());
        }
        let lib = energy_performance(&inp.comps, &inp.factors, c.k, c.area, c.lm);
        let model = evaluate(&inp.lines, n, &needs_of(&inp.comps), &inp.ft, c.k as f64, c.area as f64, c.lm);
        let (ep, m) = match (lib, model) {
            (Ok(ep), Ok(m)) => (ep, m),
            (Err(e), Err(me)) => {
                // error parity
                let same = match (&e, &me) {
                    (EpbdError::MissingFactor(_), MErr::MissingFactor(_)) => true,
                    (EpbdError::WrongInput(_), MErr::CogenWithoutInput) => true,
                    (EpbdError::WrongInput(_), MErr::Area) => true,
                    _ => false,
                };
                ensure!(same, "error_parity", "library error `{}` but the model stops with {:?}", e, me);
                ctx.label("both_err");
                return Ok(());
            }
            (Ok(_), Err(me)) => fail!("error_parity", "library returns a result where the equations cannot be evaluated: {:?}", me),
            (Err(e), Ok(_)) => fail!("error_parity", "library fails ({}) on inputs the equations evaluate", e),
        };
        let sc = inp.scales(c.area);
        let fl = flat(&ep);
        let fm = m.flat();
        let den = (m.b[0] + m.b[1]).abs();
        // a total that is exactly zero (no weighted energy at all): RER is defined as 0, not 0/0
        if m.b[0] == 0.0 && m.b[1] == 0.0 && ep.balance.we.b.ren == 0.0 && ep.balance.we.b.nren == 0.0 {
            ensure!(ep.rer == 0.0, "model", "RER = {} for a building whose total primary energy is exactly zero (defined as 0)", ep.rer);
            ctx.label("zero_total");
        }
        let skipped = compare_flats(
            &fl,
            &fm,
            &sc,
            &CmpOpts {
                ignore: &["rer_nrb", "rer_onst"],
                names: ("library", "model"),
                rer_den: Some((den, sc.tot_weighted)),
                sub: "model",
                ..Default::default()
            },
        )?;
        if skipped > 0 {
            ctx.skip("ratio_den_noise");
        }
        // end to end: the equations evaluated from the *declared* lines (own models of completion
        // and auxiliary split), so that a mis-read tag or a wrong normalisation also shows here
        match own_lines(&c.b) {
            Some(lines) => {
                let needs: std::collections::BTreeMap<Srv, f64> = {
                    let mut m = std::collections::BTreeMap::new();
                    for nd in &c.b.needs {
                        *m.entry(nd.srv).or_insert(0.0) += nd.vals.iter().map(|x| *x as f64).sum::<f64>();
                    }
                    m
                };
                match evaluate(&lines, n, &needs, &inp.ft, c.k as f64, c.area as f64, c.lm) {
                    Ok(m2) => {
                        compare_flats(
                            &fl,
                            &m2.flat(),
                            &sc,
                            &CmpOpts { ignore: &["rer_nrb", "rer_onst"], names: ("library", "model from the declared lines"), rer_den: Some((den, sc.tot_weighted)), sub: "model_end_to_end", tol_mult: 2.0, ..Default::default() },
                        )?;
                        ctx.label("end_to_end");
                    }
                    Err(me) => fail!("model_end_to_end", "the equations cannot be evaluated from the declared lines: {:?}", me),
                }
            }
            None => ctx.skip("end_to_end_undefined_aux_share"),
        }
        // net under fields the hand-written view might lack
        let jl = json_result_leaf_count(&ep);
        let hl = flat_leaf_count(&fl);
        if jl != hl {
            ctx.count("unmapped_fields", (jl as i64 - hl as i64).unsigned_abs());
        }
        // classification
        let exports = m.carriers.values().any(|x| x.exp_an() > 0.0);
        let cogen = m.f_cgn_a.is_some();
        let both_dest = m.carriers.iter().any(|(car, x)| {
            let a: f64 = x.exp_nepus_t.iter().sum();
            let b: f64 = x.exp_grid_t.iter().sum();
            a > 0.0 && b > 0.0 && {
                let f1 = inp.ft.find(*car, FSrc::INSITU, FDest::A_RED, FStep::A).ok();
                let f2 = inp.ft.find(*car, FSrc::INSITU, FDest::A_NEPB, FStep::A).ok();
                f1 != f2
            }
        });
        if exports {
            ctx.label("exports");
        }
        if cogen {
            ctx.label("cogeneration");
        }
        if both_dest {
            ctx.label("both_destinations_distinct_factors");
        }
        if c.lm {
            ctx.label("load_matching");
        }
        if c.f.is_regulatory() {
            ctx.label("regulatory_factors");
        } else {
            ctx.label("user_factors");
        }
        if (exports && c.k > 0.0 && c.k < 1.0) || (cogen && n > 1) || both_dest {
            ctx.nontrivial = true;
        }
        Ok(())
    }
}
