pub mod c01;
pub mod c02;
