//! C05 Parsing keeps declared data and completes ambient/solar production exactly.

use std::collections::BTreeMap;

use proptest::prelude::*;
use serde_json::Value;

use cteepbd::types::Energy;
use cteepbd::{energy_performance, Components};

use crate::common::*;
use crate::dom::*;
use crate::engine::*;
use crate::fgen::FactorCase;
use crate::gen::{building, Building, Kind};
use crate::model::{lines_from_components, MKind, MLine};
use crate::tol::{tol, EPS32};
use crate::{ensure, fail};

pub struct C05;

type Key = (u8, i32, String); // (kind, id, tags)

fn key_of(l: &MLine) -> Key {
    match &l.kind {
        MKind::Used { srv, car } => (0, l.id, format!("{}/{}", srv.name(), car.name())),
        MKind::Prod { src } => (1, l.id, src.name().to_string()),
        MKind::Aux { srv } => (2, l.id, srv.name().to_string()),
        MKind::Out { srv } => (3, l.id, srv.name().to_string()),
    }
}

/// per-(kind, id, tags) per-step sums
fn grouped(lines: &[MLine], n: usize) -> BTreeMap<Key, Vec<f64>> {
    let mut m: BTreeMap<Key, Vec<f64>> = BTreeMap::new();
    for l in lines {
        let e = m.entry(key_of(l)).or_insert_with(|| vec![0.0; n]);
        for t in 0..n.min(l.vals.len()) {
            e[t] += l.vals[t];
        }
    }
    m
}

/// Σ|values| per group (tolerance scale)
fn grouped_abs(lines: &[MLine], n: usize) -> BTreeMap<Key, f64> {
    let mut m: BTreeMap<Key, f64> = BTreeMap::new();
    for l in lines {
        *m.entry(key_of(l)).or_default() += l.vals.iter().take(n).map(|v| v.abs()).sum::<f64>();
    }
    m
}

/// numeric equality of two normalised component sets (DESIGN C05 (d))
pub fn same_numbers(a: &Components, b: &Components, n: usize, sub: &str) -> CheckResult {
    let (la, lb) = (lines_from_components(a), lines_from_components(b));
    let (ga, gb) = (grouped(&la, n), grouped(&lb, n));
    let sa = grouped_abs(&la, n);
    // a group that only exists on one side must be all ~0 (f32 residue of a re-completion)
    for (k, v) in ga.iter() {
        let w = gb.get(k);
        let s = sa.get(k).cloned().unwrap_or(0.0) + carrier_scale(&la, k, n);
        let t = 8.0 * EPS32 * s + 1e-9;
        for i in 0..n {
            let y = w.map(|w| w[i]).unwrap_or(0.0);
            ensure!((v[i] - y).abs() <= t, sub, "group {:?} step {}: {} vs {}", k, i, v[i], y);
        }
    }
    for (k, w) in gb.iter() {
        if !ga.contains_key(k) {
            let s = carrier_scale(&lb, k, n);
            let t = 8.0 * EPS32 * s + 1e-9;
            ensure!(k.0 == 1, sub, "group {:?} appears only after the second normalisation", k);
            for i in 0..n {
                ensure!(w[i].abs() <= t, sub, "new group {:?} step {} = {} after the second normalisation", k, i, w[i]);
            }
        }
    }
    Ok(())
}

/// for a production group: scale = Σ|use| + Σ|prod| of that carrier and system
fn carrier_scale(lines: &[MLine], k: &Key, n: usize) -> f64 {
    if k.0 != 1 {
        return 0.0;
    }
    let car = lines.iter().find(|l| key_of(l) == *k).and_then(|l| l.carrier());
    lines
        .iter()
        .filter(|l| l.id == k.1 && l.carrier() == car && !matches!(l.kind, MKind::Aux { .. }))
        .map(|l| l.vals.iter().take(n).map(|v| v.abs()).sum::<f64>())
        .sum()
}

pub fn check_parse(b: &Building, comps: &Components, ctx: &mut Ctx) -> CheckResult {
    let n = b.n;
    let lines = lines_from_components(comps);
    // (a) nothing declared is dropped or altered (CONSUMO, PRODUCCION, SALIDA one by one)
    let mut pool: Vec<Option<&Energy>> = comps.data.iter().map(Some).collect();
    for l in &b.lines {
        let found = pool.iter().position(|e| match (e, &l.kind) {
            (Some(Energy::Used(u)), Kind::Used { srv, car }) => {
                u.id == l.id && u.service == srv.to_lib() && u.carrier == car.to_lib() && u.values == l.vals && u.comment == l.comment
            }
            (Some(Energy::Prod(p)), Kind::Prod { src }) => p.id == l.id && p.source == src.to_lib() && p.values == l.vals && p.comment == l.comment,
            (Some(Energy::Out(o)), Kind::Out { srv }) => o.id == l.id && o.service == srv.to_lib() && o.values == l.vals && o.comment == l.comment,
            _ => false,
        });
        match (&l.kind, found) {
            (Kind::Aux, _) => {}
            (_, Some(i)) => pool[i] = None,
            (_, None) => fail!("declared_kept", "declared line `{}` is not among the parsed components (dropped or altered)", l.render()),
        }
    }
    // what is left: auxiliaries (C06) and completion lines; nothing else
    let mut added: BTreeMap<(Car, i32), Vec<f64>> = BTreeMap::new();
    for e in pool.into_iter().flatten() {
        match e {
            Energy::Aux(_) => {}
            Energy::Prod(p) => {
                let src = Src::from_lib(p.source);
                ensure!(matches!(src, Src::EAMBIENTE | Src::TERMOSOLAR), "nothing_else", "production of {} was added for system {}", src.name(), p.id);
                ensure!(p.values.len() == n, "nothing_else", "added production has {} steps", p.values.len());
                let a = added.entry((src.carrier(), p.id)).or_insert_with(|| vec![0.0; n]);
                for t in 0..n {
                    a[t] += p.values[t] as f64;
                }
            }
            Energy::Used(u) => fail!("nothing_else", "a consumption line was added: {}", u),
            Energy::Out(o) => fail!("nothing_else", "an output line was added: {}", o),
        }
    }
    // demands: per service the element-wise sum of its lines
    for (srv, got) in [(Srv::ACS, &comps.needs.ACS), (Srv::CAL, &comps.needs.CAL), (Srv::REF, &comps.needs.REF)] {
        let decl: Vec<&crate::gen::Need> = b.needs.iter().filter(|x| x.srv == srv).collect();
        match (decl.is_empty(), got) {
            (true, None) => {}
            (true, Some(_)) => fail!("demand", "a {} demand appears that was not declared", srv.name()),
            (false, None) => fail!("demand", "the declared {} demand was dropped", srv.name()),
            (false, Some(v)) => {
                ensure!(v.len() == n, "demand", "{} demand has {} steps", srv.name(), v.len());
                for t in 0..n {
                    let s: f64 = decl.iter().map(|d| d.vals[t] as f64).sum();
                    let a: f64 = decl.iter().map(|d| d.vals[t].abs() as f64).sum();
                    ensure!((v[t] as f64 - s).abs() <= 4.0 * EPS32 * a + 1e-12, "demand", "{} demand step {}: {} but the declared lines add up to {}", srv.name(), t, v[t], s);
                }
            }
        }
    }
    // (b) completion model per carrier, system, step
    let mut relations: BTreeMap<Car, std::collections::BTreeSet<&'static str>> = BTreeMap::new();
    for car in [Car::EAMBIENTE, Car::TERMOSOLAR] {
        let mut ids: Vec<i32> = b.lines.iter().filter(|l| l.carrier() == Some(car) && !matches!(l.kind, Kind::Aux)).map(|l| l.id).collect();
        ids.sort();
        ids.dedup();
        for id in ids {
            let mut us = vec![0.0f64; n];
            let mut pr = vec![0.0f64; n];
            let mut has_use = false;
            for l in b.lines.iter().filter(|l| l.id == id) {
                match &l.kind {
                    Kind::Used { car: c, .. } if *c == car => {
                        has_use = true;
                        for t in 0..n {
                            us[t] += l.vals[t] as f64;
                        }
                    }
                    Kind::Prod { src } if src.carrier() == car => {
                        for t in 0..n {
                            pr[t] += l.vals[t] as f64;
                        }
                    }
                    _ => {}
                }
            }
            let got = added.remove(&(car, id));
            let mut partial = false;
            let mut surplus = false;
            for t in 0..n {
                let expect = (us[t] - pr[t]).max(0.0);
                let g = got.as_ref().map(|g| g[t]).unwrap_or(0.0);
                let tl = 8.0 * EPS32 * (us[t] + pr[t]) + 1e-9;
                ensure!((g - expect).abs() <= tl, "completion", "{} system {} step {}: added production {} but use {} - declared production {} leaves {}", car.name(), id, t, g, us[t], pr[t], expect);
                if us[t] > pr[t] {
                    partial = true;
                }
                if pr[t] > us[t] {
                    surplus = true;
                }
            }
            if has_use {
                let r = relations.entry(car).or_default();
                if partial {
                    r.insert("partial_or_missing");
                }
                if surplus {
                    r.insert("surplus");
                }
                if !partial && !surplus {
                    r.insert("exact");
                }
                ctx.label(format!("{}:{}", car.name(), if partial && surplus { "mixed" } else if partial { "partial" } else if surplus { "surplus" } else { "exact" }));
            } else {
                ctx.label(format!("{}:production_without_use", car.name()));
            }
        }
    }
    for ((car, id), v) in &added {
        // a completion line for a (carrier, system) that declares no line of that carrier
        ensure!(v.iter().all(|x| *x == 0.0), "nothing_else", "production of {} added for system {} which declares none of it", car.name(), id);
    }
    // sorted by id (stable): documented by normalize
    let ids: Vec<i32> = comps.data.iter().map(|e| e.id()).collect();
    ensure!(ids.windows(2).all(|w| w[0] <= w[1]), "sorted", "components are not sorted by system id after parsing");
    if relations.values().any(|r| r.len() >= 2) {
        ctx.nontrivial = true;
    }
    let _ = lines;
    Ok(())
}

impl Prop for C05 {
    type Case = Building;
    const ID: &'static str = "C05";
    fn rule() -> String {
        "cases = building() dense in EAMBIENTE / TERMOSOLAR lines (several systems with ids incl. negative and repeated, uses for several services incl. NEPB and COGEN, \
         declared production none / partial / exact / surplus / for a system without use), DEMANDA lines, other carriers around; \
         oracle = declared CONSUMO/PRODUCCION/SALIDA lines found one by one (ids, tags, f32 values, comments) among the parsed components, demands equal the sum of their lines, \
         added production = max(0, use - declared) per carrier, system and step and nothing else, surplus exported and no grid delivery of ambient/solar energy, normalize twice = once (numerically); \
         non-trivial = one carrier has >= 2 systems with different use/production relations"
            .into()
    }
    fn assumptions() -> Vec<String> {
        vec![
            "auxiliary lines are compared by C06 (their service tag is derived)".into(),
            "a second normalisation may append an all-~0 production line (f32 residue of (use - prod) + prod): compared numerically per (kind, id, tags, step), 8 eps32 relative".into(),
        ]
    }
    fn cases(tier: Tier) -> u32 {
        tier.pick(5_000, 800_000)
    }
    fn strategy(tier: Tier) -> BoxedStrategy<Building> {
        let mut p = params(tier);
        p.env_heavy = true;
        p.with_needs = true;
        p.regime_pct = 20;
        building(&p)
    }
    fn describe(b: &Building) -> Value {
        serde_json::json!({"components": b.render(), "tags": b.tags})
    }
    fn check(b: &Building, ctx: &mut Ctx) -> CheckResult {
        let comps = parse_sound(b)?;
        crate::common::label_long(ctx, b);
        check_parse(b, &comps, ctx)?;
        let n = b.n;
        // (d) idempotence
        let again = match comps.clone().normalize() {
            Ok(c) => c,
            Err(e) => fail!("idempotent", "normalising an already normalised set fails: {}", e),
        };
        same_numbers(&comps, &again, n, "idempotent")?;
        ensure!(format!("{:?}", again.meta) == format!("{:?}", comps.meta), "idempotent", "metadata change on re-normalisation");
        ensure!(format!("{:?}", again.needs) == format!("{:?}", comps.needs), "idempotent", "demands change on re-normalisation");
        // (c) consequence in the balance: surplus exported, nothing delivered by the (fictitious) grid
        let f = FactorCase::Regulatory { loc: "PENINSULA".into(), red1: None, red2: None }.prepare().map_err(|e| Failure::new("harness", e.to_string()))?;
        if b.has_cogen_prod() && !b.lines.iter().any(|l| matches!(l.kind, Kind::Used { srv: Srv::COGEN, .. })) {
            return Ok(());
        }
        let ep = match energy_performance(&comps, &f, 0.0, 1.0, false) {
            Ok(ep) => ep,
            Err(e) => fail!("sound_evaluation_failed", "{}", e),
        };
        for car in [Car::EAMBIENTE, Car::TERMOSOLAR] {
            if let Some(bc) = ep.balance_cr.get(&car.to_lib()) {
                let s: f64 = bc.used.epus_an as f64 + bc.used.nepus_an as f64 + bc.used.cgnus_an as f64 + bc.prod.an as f64;
                let t = tol(s, n + b.lines.len().saturating_sub(64));
                for i in 0..n {
                    ensure!((bc.del.grid_t[i] as f64).abs() <= t, "no_grid_delivery", "{} step {}: {} kWh delivered by the grid although use is completed by production", car.name(), i, bc.del.grid_t[i]);
                    let surplus = bc.prod.t[i] as f64 - bc.used.epus_t[i] as f64;
                    ensure!((bc.exp.t[i] as f64 - surplus).abs() <= t, "surplus_exported", "{} step {}: exported {} but production - EPB use = {}", car.name(), i, bc.exp.t[i], surplus);
                }
            }
        }
        Ok(())
    }
}
