//! C04 Totals equal the sum of their breakdowns; per-m2 values equal totals / area.

use std::collections::{BTreeMap, BTreeSet};

use proptest::prelude::*;
use serde::{Deserialize, Serialize};
use serde_json::Value;

use cteepbd::types::{EnergyPerformance, RenNrenCo2};

use crate::common::*;
use crate::dom::*;
use crate::engine::*;
use crate::flat::{flat, EK};
use crate::gen::area_s;
use crate::tol::{compare_flats, tol, CmpOpts, Scales, EPS32};
use crate::{ensure, fail};

pub struct C04;

#[derive(Clone, Debug, Serialize, Deserialize)]
pub struct Case {
    pub base: BFCase,
    pub area2: f32,
}

fn r3(r: &RenNrenCo2) -> [f64; 3] {
    [r.ren as f64, r.nren as f64, r.co2 as f64]
}

fn close(a: f64, b: f64, t: f64) -> bool {
    (a - b).abs() <= t
}

/// (a) and (b): totals vs per-carrier figures, breakdowns vs totals
pub fn check_sums(ep: &EnergyPerformance, sc: &Scales) -> CheckResult {
    let bal = &ep.balance;
    let te = 2.0 * tol(sc.tot_energy, sc.n);
    let tw = 2.0 * tol(sc.tot_weighted, sc.n);
    let crs: Vec<_> = ep.balance_cr.values().collect();
    let sum = |f: &dyn Fn(&cteepbd::types::BalanceCarrier) -> f32| -> f64 { crs.iter().map(|b| f(b) as f64).sum() };
    let scalars: [(&str, f32, f64); 10] = [
        ("used.epus", bal.used.epus, sum(&|b| b.used.epus_an)),
        ("used.nepus", bal.used.nepus, sum(&|b| b.used.nepus_an)),
        ("used.cgnus", bal.used.cgnus, sum(&|b| b.used.cgnus_an)),
        ("prod.an", bal.prod.an, sum(&|b| b.prod.an)),
        ("del.an", bal.del.an, sum(&|b| b.del.an)),
        ("del.onst", bal.del.onst, sum(&|b| b.del.onst_an)),
        ("del.grid", bal.del.grid, sum(&|b| b.del.grid_an)),
        ("exp.an", bal.exp.an, sum(&|b| b.exp.an)),
        ("exp.nepus", bal.exp.nepus, sum(&|b| b.exp.nepus_an)),
        ("exp.grid", bal.exp.grid, sum(&|b| b.exp.grid_an)),
    ];
    for (name, tot, s) in scalars {
        ensure!(close(tot as f64, s, te), "total=sum_cr", "balance.{} = {} but Σ over carriers = {}", name, tot, s);
    }
    let w: [(&str, [f64; 3], Box<dyn Fn(&cteepbd::types::BalanceCarrier) -> [f64; 3]>); 5] = [
        ("we.a", r3(&bal.we.a), Box::new(|b| r3(&b.we.a))),
        ("we.b", r3(&bal.we.b), Box::new(|b| r3(&b.we.b))),
        ("we.del", r3(&bal.we.del), Box::new(|b| r3(&b.we.del))),
        ("we.exp_a", r3(&bal.we.exp_a), Box::new(|b| r3(&b.we.exp_a))),
        ("we.exp", r3(&bal.we.exp), Box::new(|b| r3(&b.we.exp))),
    ];
    for (name, tot, f) in w.iter() {
        for j in 0..3 {
            let s: f64 = crs.iter().map(|b| f(b)[j]).sum();
            ensure!(close(tot[j], s, tw), "total=sum_cr", "balance.{}[{}] = {} but Σ over carriers = {}", name, j, tot[j], s);
        }
    }
    // by service
    let mut by_srv: BTreeMap<Srv, f64> = BTreeMap::new();
    let mut a_by_srv: BTreeMap<Srv, [f64; 3]> = BTreeMap::new();
    let mut b_by_srv: BTreeMap<Srv, [f64; 3]> = BTreeMap::new();
    let mut by_cr_by_srv: BTreeMap<(Srv, Car), f64> = BTreeMap::new();
    let mut by_src: BTreeMap<Src, f64> = BTreeMap::new();
    let mut epus_by_src: BTreeMap<Src, f64> = BTreeMap::new();
    let mut epus_by_srv_by_src: BTreeMap<(Src, Srv), f64> = BTreeMap::new();
    let mut we_a_epb = [0.0f64; 3];
    let mut we_b_epb = [0.0f64; 3];
    for b in &crs {
        let car = Car::from_lib(b.carrier);
        for (s, v) in &b.used.epus_by_srv_an {
            *by_srv.entry(Srv::from_lib(*s)).or_default() += *v as f64;
            *by_cr_by_srv.entry((Srv::from_lib(*s), car)).or_default() += *v as f64;
        }
        for (s, v) in &b.we.a_by_srv {
            let e = a_by_srv.entry(Srv::from_lib(*s)).or_insert([0.0; 3]);
            let r = r3(v);
            for j in 0..3 {
                e[j] += r[j];
            }
        }
        for (s, v) in &b.we.b_by_srv {
            let e = b_by_srv.entry(Srv::from_lib(*s)).or_insert([0.0; 3]);
            let r = r3(v);
            for j in 0..3 {
                e[j] += r[j];
            }
        }
        for (s, v) in &b.prod.by_src_an {
            *by_src.entry(Src::from_lib(*s)).or_default() += *v as f64;
        }
        for (s, v) in &b.prod.epus_by_src_an {
            *epus_by_src.entry(Src::from_lib(*s)).or_default() += *v as f64;
        }
        for (s, m) in &b.prod.epus_by_srv_by_src_an {
            for (sv, v) in m {
                *epus_by_srv_by_src.entry((Src::from_lib(*s), Srv::from_lib(*sv))).or_default() += *v as f64;
            }
        }
        if b.used.epus_an > 0.0 {
            let (a, bb) = (r3(&b.we.a), r3(&b.we.b));
            for j in 0..3 {
                we_a_epb[j] += a[j];
                we_b_epb[j] += bb[j];
            }
        }
        // sparse by-carrier maps
        let e = bal.used.epus_by_cr.get(&b.carrier).cloned().unwrap_or(0.0);
        ensure!(close(e as f64, b.used.epus_an as f64, te), "by_cr", "balance.used.epus_by_cr[{}] = {} but the carrier's EPB use is {}", car.name(), e, b.used.epus_an);
        let e = bal.prod.by_cr.get(&b.carrier).cloned().unwrap_or(0.0);
        ensure!(close(e as f64, b.prod.an as f64, te), "by_cr", "balance.prod.by_cr[{}] = {} but the carrier's production is {}", car.name(), e, b.prod.an);
        let e = bal.del.grid_by_cr.get(&b.carrier).cloned().unwrap_or(0.0);
        ensure!(close(e as f64, b.del.grid_an as f64, te), "by_cr", "balance.del.grid_by_cr[{}] = {} but the carrier's grid delivery is {}", car.name(), e, b.del.grid_an);
    }
    for c in bal.used.epus_by_cr.keys().chain(bal.prod.by_cr.keys()).chain(bal.del.grid_by_cr.keys()) {
        ensure!(ep.balance_cr.contains_key(c), "by_cr", "by-carrier entry for {:?}, which has no balance", c);
    }
    // keys neither missing nor invented
    let ks: BTreeSet<Srv> = bal.used.epus_by_srv.keys().map(|s| Srv::from_lib(*s)).collect();
    ensure!(ks == by_srv.keys().cloned().collect(), "keys", "services of balance.used.epus_by_srv {:?} != services used {:?}", ks, by_srv.keys());
    for (s, v) in &bal.used.epus_by_srv {
        let e = by_srv[&Srv::from_lib(*s)];
        ensure!(close(*v as f64, e, te), "by_srv", "balance.used.epus_by_srv[{:?}] = {} but Σ over carriers = {}", s, v, e);
    }
    let ks: BTreeSet<Srv> = bal.we.a_by_srv.keys().map(|s| Srv::from_lib(*s)).collect();
    ensure!(ks == a_by_srv.keys().cloned().collect(), "keys", "services of balance.we.a_by_srv");
    let ks: BTreeSet<Srv> = bal.we.b_by_srv.keys().map(|s| Srv::from_lib(*s)).collect();
    ensure!(ks == b_by_srv.keys().cloned().collect(), "keys", "services of balance.we.b_by_srv");
    for (s, v) in &bal.we.a_by_srv {
        let (x, e) = (r3(v), a_by_srv[&Srv::from_lib(*s)]);
        for j in 0..3 {
            ensure!(close(x[j], e[j], tw), "by_srv", "balance.we.a_by_srv[{:?}][{}] = {} but Σ over carriers = {}", s, j, x[j], e[j]);
        }
    }
    for (s, v) in &bal.we.b_by_srv {
        let (x, e) = (r3(v), b_by_srv[&Srv::from_lib(*s)]);
        for j in 0..3 {
            ensure!(close(x[j], e[j], tw), "by_srv", "balance.we.b_by_srv[{:?}][{}] = {} but Σ over carriers = {}", s, j, x[j], e[j]);
        }
    }
    let mut seen = 0;
    for (s, m) in &bal.used.epus_by_cr_by_srv {
        for (c, v) in m {
            seen += 1;
            let e = match by_cr_by_srv.get(&(Srv::from_lib(*s), Car::from_lib(*c))) {
                Some(e) => *e,
                None => fail!("keys", "balance.used.epus_by_cr_by_srv[{:?}][{:?}] invented", s, c),
            };
            ensure!(close(*v as f64, e, te), "by_cr_by_srv", "balance.used.epus_by_cr_by_srv[{:?}][{:?}] = {} but the carrier's use for the service is {}", s, c, v, e);
        }
    }
    ensure!(seen == by_cr_by_srv.len(), "keys", "balance.used.epus_by_cr_by_srv lacks entries ({} of {})", seen, by_cr_by_srv.len());
    let ks: BTreeSet<Src> = bal.prod.by_src.keys().map(|s| Src::from_lib(*s)).collect();
    ensure!(ks == by_src.keys().cloned().collect(), "keys", "sources of balance.prod.by_src");
    for (s, v) in &bal.prod.by_src {
        ensure!(close(*v as f64, by_src[&Src::from_lib(*s)], te), "by_src", "balance.prod.by_src[{:?}] = {} but Σ over carriers = {}", s, v, by_src[&Src::from_lib(*s)]);
    }
    let ks: BTreeSet<Src> = bal.prod.epus_by_src.keys().map(|s| Src::from_lib(*s)).collect();
    ensure!(ks == epus_by_src.keys().cloned().collect(), "keys", "sources of balance.prod.epus_by_src");
    for (s, v) in &bal.prod.epus_by_src {
        ensure!(close(*v as f64, epus_by_src[&Src::from_lib(*s)], te), "by_src", "balance.prod.epus_by_src[{:?}] = {} but Σ over carriers = {}", s, v, epus_by_src[&Src::from_lib(*s)]);
    }
    let mut seen = 0;
    for (s, m) in &bal.prod.epus_by_srv_by_src {
        let mut ssum = 0.0;
        for (sv, v) in m {
            seen += 1;
            let e = match epus_by_srv_by_src.get(&(Src::from_lib(*s), Srv::from_lib(*sv))) {
                Some(e) => *e,
                None => fail!("keys", "balance.prod.epus_by_srv_by_src[{:?}][{:?}] invented", s, sv),
            };
            ensure!(close(*v as f64, e, te), "by_srv_by_src", "balance.prod.epus_by_srv_by_src[{:?}][{:?}] = {} but Σ over carriers = {}", s, sv, v, e);
            ssum += *v as f64;
        }
        // Σ_srv of the source = produced-and-used energy of the source
        let e = bal.prod.epus_by_src.get(s).cloned().unwrap_or(0.0) as f64;
        ensure!(close(ssum, e, te), "sum_srv(by_src)", "Σ_srv balance.prod.epus_by_srv_by_src[{:?}] = {} but epus_by_src = {}", s, ssum, e);
    }
    ensure!(seen == epus_by_srv_by_src.len(), "keys", "balance.prod.epus_by_srv_by_src lacks entries");
    // (b) breakdowns add up
    let s: f64 = bal.used.epus_by_srv.values().map(|v| *v as f64).sum();
    ensure!(close(s, bal.used.epus as f64, te), "sum_srv=epus", "Σ_srv EPB use {} != EPB use {}", s, bal.used.epus);
    let s: f64 = bal.used.epus_by_cr.values().map(|v| *v as f64).sum();
    ensure!(close(s, bal.used.epus as f64, te), "sum_cr=epus", "Σ_cr EPB use {} != EPB use {}", s, bal.used.epus);
    let s: f64 = bal.prod.by_src.values().map(|v| *v as f64).sum();
    ensure!(close(s, bal.prod.an as f64, te), "sum_src=prod", "Σ_src production {} != production {}", s, bal.prod.an);
    let s: f64 = bal.prod.by_cr.values().map(|v| *v as f64).sum();
    ensure!(close(s, bal.prod.an as f64, te), "sum_cr=prod", "Σ_cr production {} != production {}", s, bal.prod.an);
    // whole building: produced-and-used energy by source = Σ over carriers of the produced-and-used energy
    let s: f64 = bal.prod.epus_by_src.values().map(|v| *v as f64).sum();
    let e: f64 = crs.iter().map(|b| b.prod.epus_an as f64).sum();
    ensure!(close(s, e, te), "sum_src(epus)", "Σ_src produced-and-used energy {} != Σ over carriers {}", s, e);
    let s = bal.del.grid as f64 + bal.del.onst as f64 + bal.used.cgnus as f64;
    ensure!(close(s, bal.del.an as f64, te), "del=grid+onst+cgn", "delivered {} != grid {} + on-site {} + cogeneration input {}", bal.del.an, bal.del.grid, bal.del.onst, bal.used.cgnus);
    let s = bal.exp.grid as f64 + bal.exp.nepus as f64;
    ensure!(close(s, bal.exp.an as f64, te), "exp=grid+nepus", "exported {} != grid {} + nEPB {}", bal.exp.an, bal.exp.grid, bal.exp.nepus);
    let s: f64 = bal.del.grid_by_cr.values().map(|v| *v as f64).sum();
    ensure!(close(s, bal.del.grid as f64, te), "sum_cr=del.grid", "Σ_cr grid delivery {} != {}", s, bal.del.grid);
    for j in 0..3 {
        let s: f64 = bal.we.a_by_srv.values().map(|v| r3(v)[j]).sum();
        ensure!(close(s, we_a_epb[j], tw), "sum_srv=we.a", "Σ_srv step A [{}] = {} but Σ over carriers with EPB use = {}", j, s, we_a_epb[j]);
        let s: f64 = bal.we.b_by_srv.values().map(|v| r3(v)[j]).sum();
        ensure!(close(s, we_b_epb[j], tw), "sum_srv=we.b", "Σ_srv step B [{}] = {} but Σ over carriers with EPB use = {}", j, s, we_b_epb[j]);
    }
    // per carrier: Σ_srv use = use; Σ_srv weighted = weighted (when the carrier has EPB use)
    for b in &crs {
        let car = Car::from_lib(b.carrier);
        let t = 2.0 * tol(sc.s_energy(Some(car)), sc.n);
        let s: f64 = b.used.epus_by_srv_an.values().map(|v| *v as f64).sum();
        ensure!(close(s, b.used.epus_an as f64, t), "cr:sum_srv=epus", "{}: Σ_srv EPB use {} != {}", car.name(), s, b.used.epus_an);
        let tw = 2.0 * tol(sc.s_weighted(Some(car)), sc.n);
        if b.used.epus_an > 0.0 {
            for j in 0..3 {
                let s: f64 = b.we.b_by_srv.values().map(|v| r3(v)[j]).sum();
                ensure!(close(s, r3(&b.we.b)[j], tw), "cr:sum_srv=we.b", "{}: Σ_srv step B [{}] {} != {}", car.name(), j, s, r3(&b.we.b)[j]);
                let s: f64 = b.we.a_by_srv.values().map(|v| r3(v)[j]).sum();
                ensure!(close(s, r3(&b.we.a)[j], tw), "cr:sum_srv=we.a", "{}: Σ_srv step A [{}] {} != {}", car.name(), j, s, r3(&b.we.a)[j]);
            }
        }
        let s = b.del.grid_an as f64 + b.del.onst_an as f64 + b.del.cgn_an as f64;
        ensure!(close(s, b.del.an as f64, t), "cr:del", "{}: delivered {} != grid + on-site + cogeneration input {}", car.name(), b.del.an, s);
        let s = b.exp.grid_an as f64 + b.exp.nepus_an as f64;
        ensure!(close(s, b.exp.an as f64, t), "cr:exp", "{}: exported {} != grid + nEPB {}", car.name(), b.exp.an, s);
        // the same two breakdowns in weighted terms
        for j in 0..3 {
            let s = r3(&b.we.del_grid)[j] + r3(&b.we.del_onst)[j] + r3(&b.we.del_cgn)[j];
            ensure!(close(s, r3(&b.we.del)[j], tw), "cr:we.del", "{}: weighted delivered [{}] {} != grid + on-site + cogeneration input {}", car.name(), j, r3(&b.we.del)[j], s);
            let s = r3(&b.we.exp_grid_a)[j] + r3(&b.we.exp_nepus_a)[j];
            ensure!(close(s, r3(&b.we.exp_a)[j], tw), "cr:we.exp_a", "{}: weighted exported (step A) [{}] {} != grid {} + nEPB {}", car.name(), j, r3(&b.we.exp_a)[j], r3(&b.we.exp_grid_a)[j], r3(&b.we.exp_nepus_a)[j]);
        }
        // produced-and-used energy by source adds up to the carrier's produced-and-used energy
        let s: f64 = b.prod.epus_by_src_an.values().map(|v| *v as f64).sum();
        ensure!(close(s, b.prod.epus_an as f64, t), "cr:sum_src(epus)", "{}: Σ_src produced-and-used energy {} != produced-and-used energy {}", car.name(), s, b.prod.epus_an);
        for (src, m) in &b.prod.epus_by_srv_by_src_an {
            let s: f64 = m.values().map(|v| *v as f64).sum();
            let e = b.prod.epus_by_src_an.get(src).cloned().unwrap_or(0.0) as f64;
            if !m.is_empty() {
                ensure!(close(s, e, t), "cr:sum_srv(by_src)", "{}: Σ_srv used production of {:?} = {} but by source = {}", car.name(), src, s, e);
            }
        }
    }
    Ok(())
}

impl Prop for C04 {
    type Case = Case;
    const ID: &'static str = "C04";
    fn rule() -> String {
        "cases = building() x factor_case() x k_exp x area (log-uniform, incl. 0.001 and 1) x a second area; oracle = sums of breakdowns vs totals \
         (per carrier and whole building), per-m2 x area = absolute, and re-evaluation with the second area changes only arearef and the per-m2 block; \
         non-trivial = >= 3 carriers, >= 2 services, >= 2 production sources and area != 1"
            .into()
    }
    fn assumptions() -> Vec<String> {
        vec!["tolerances of DESIGN 3.4 (twice tol for sums of independently rounded terms)".into()]
    }
    fn cases(tier: Tier) -> u32 {
        tier.pick(3_000, 400_000)
    }
    fn strategy(tier: Tier) -> BoxedStrategy<Case> {
        // with building needs (DEMANDA lines, negative ones included): they have a per-m2 form too
        let mut p = params(tier);
        p.with_needs = true;
        (bf_case(p, 50), area_s()).prop_map(|(base, area2)| Case { base, area2 }).boxed()
    }
    fn describe(c: &Case) -> Value {
        let mut v = c.base.describe();
        v["area2"] = serde_json::json!(c.area2);
        v
    }
    fn check(c: &Case, ctx: &mut Ctx) -> CheckResult {
        let inp = inputs(&c.base.b, &c.base.f)?;
        crate::common::label_long(ctx, &c.base.b);
        let sc = inp.scales(c.base.area);
        let ep = eval_sound(&inp.comps, &inp.factors, c.base.k, c.base.area, c.base.lm)?;
        check_sums(&ep, &sc)?;
        // (c) per m2
        let f1 = flat(&ep);
        let area = ep.arearef as f64;
        ensure!(ep.arearef == c.base.area, "area_echo", "arearef echoed as {} for {}", ep.arearef, c.base.area);
        let mut n_m2 = 0;
        for (path, e) in &f1 {
            if let Some(rest) = path.strip_prefix("m2.") {
                n_m2 += 1;
                let abs = match f1.get(&format!("bal.{}", rest)) {
                    Some(a) => a,
                    None => fail!("per_m2", "per-m2 entry `{}` has no absolute counterpart", path),
                };
                ensure!(abs.vals.len() == e.vals.len(), "per_m2", "`{}` shape", path);
                for j in 0..e.vals.len() {
                    let t = 8.0 * EPS32 * abs.vals[j].abs() + 1e-9;
                    ensure!((e.vals[j] * area - abs.vals[j]).abs() <= t, "per_m2", "`{}`[{}] x area = {} but the absolute figure is {}", path, j, e.vals[j] * area, abs.vals[j]);
                }
            }
        }
        let n_abs = f1.keys().filter(|k| k.starts_with("bal.")).count();
        ensure!(n_abs == n_m2, "per_m2", "{} absolute entries but {} per-m2 entries", n_abs, n_m2);
        // (d) another area changes only arearef and the per-m2 block
        let ep2 = eval_sound(&inp.comps, &inp.factors, c.base.k, c.area2, c.base.lm)?;
        let f2 = flat(&ep2);
        compare_flats(
            &f1,
            &f2,
            &sc,
            &CmpOpts { ignore: &["arearef"], ignore_prefix: &["m2."], names: ("area1", "area2"), sub: "area_invariance", tol_mult: 2.0, ..Default::default() },
        )?;
        let den = (ep.balance.we.b.ren + ep.balance.we.b.nren).abs() as f64;
        if den >= 1e-3 * sc.tot_weighted && den > 0.0 {
            let rt = crate::tol::ratio_tol(tol(sc.tot_weighted, sc.n), den);
            for (name, a, b) in [("rer", ep.rer, ep2.rer), ("rer_nrb", ep.rer_nrb, ep2.rer_nrb), ("rer_onst", ep.rer_onst, ep2.rer_onst)] {
                ensure!(((a - b).abs() as f64) <= rt * (1.0 + a.abs().max(b.abs()) as f64), "area_invariance", "{} changes with the area: {} vs {}", name, a, b);
            }
        } else {
            ctx.skip("ratio_den_noise");
        }
        ensure!(ep2.k_exp == ep.k_exp, "area_invariance", "k_exp changes with the area");
        ensure!(format!("{:?}", ep2.components.data) == format!("{:?}", ep.components.data), "area_invariance", "components change with the area");
        let area2 = ep2.arearef as f64;
        for (path, e) in &f2 {
            if let Some(rest) = path.strip_prefix("m2.") {
                if let Some(abs) = f2.get(&format!("bal.{}", rest)) {
                    for j in 0..e.vals.len().min(abs.vals.len()) {
                        let t = 8.0 * EPS32 * abs.vals[j].abs() + 1e-9;
                        ensure!((e.vals[j] * area2 - abs.vals[j]).abs() <= t, "per_m2", "area2: `{}`[{}] x area = {} but the absolute figure is {}", path, j, e.vals[j] * area2, abs.vals[j]);
                    }
                }
            }
        }
        let _ = EK::Energy;
        let ncar = ep.balance_cr.len();
        let nsrv = ep.balance.used.epus_by_srv.len();
        let nsrc = ep.balance.prod.by_src.len();
        if ncar >= 3 {
            ctx.label("carriers>=3");
        }
        if nsrc >= 2 {
            ctx.label("sources>=2");
        }
        if ncar >= 3 && nsrv >= 2 && nsrc >= 2 && c.base.area != 1.0 {
            ctx.nontrivial = true;
        }
        Ok(())
    }
}
