//! C14 More on-site renewable electricity never makes the building look worse.

use proptest::collection::vec;
use proptest::prelude::*;
use serde::{Deserialize, Serialize};
use serde_json::Value;

use crate::common::*;
use crate::dom::*;
use crate::engine::*;
use crate::fgen::regulatory;
use crate::gen::{building, cents_f32, kexp_s, area_s, Kind, Line};
use crate::tol::{ratio_tol, tol};
use crate::xform::*;
use crate::{ensure, fail};

pub struct C14;

#[derive(Clone, Debug, Serialize, Deserialize)]
pub enum Inc {
    Zero,
    Cents(u32),
    /// exactly what is missing to cover the use with on-site electricity
    Fill,
    /// half of what is missing
    HalfFill,
    /// what is missing plus something
    Over(u32),
    /// something, but only at steps where on-site production already covers the use (pure surplus)
    SurplusOnly(u32),
}

#[derive(Clone, Debug, Serialize, Deserialize)]
pub struct Case {
    pub base: BFCase,
    pub inc: Vec<Inc>,
    pub id: i32,
    /// the whole increment is pure surplus: added only at steps where on-site production already
    /// covers the use (nothing more is self-consumed; every extra kWh is exported)
    #[serde(default)]
    pub pure_surplus: bool,
}

pub fn increment(c: &Case) -> Vec<f32> {
    let (us, pv, _) = elec_use_pv(&c.base.b);
    (0..c.base.b.n)
        .map(|t| {
            let missing = ((us[t] - pv[t]).max(0.0) * 100.0).round() as i64;
            let kind = &c.inc[t % c.inc.len()];
            let forced = match kind {
                Inc::Cents(x) | Inc::Over(x) | Inc::SurplusOnly(x) => Inc::SurplusOnly(*x),
                _ => Inc::Zero,
            };
            let cents: i64 = match if c.pure_surplus { &forced } else { kind } {
                Inc::Zero => 0,
                Inc::Cents(x) => *x as i64,
                Inc::Fill => missing,
                Inc::HalfFill => missing / 2,
                Inc::Over(x) => missing + *x as i64,
                Inc::SurplusOnly(x) => {
                    if missing == 0 {
                        *x as i64
                    } else {
                        0
                    }
                }
            };
            cents_f32(cents)
        })
        .collect()
}

impl Prop for C14 {
    type Case = Case;
    const ID: &'static str = "C14";
    fn rule() -> String {
        "cases = building() x regulatory factor set (4 locations, optional user RED1/RED2) x k_exp in [0,1] x load matching x a non-negative per-step increment of EL_INSITU production \
         (zero at some steps, exactly / half / more than the uncovered use at others); oracle on the pair (base, base + increment): nren, CO2 (steps A and B) and grid-delivered energy (total, electricity) do not increase; with k_exp = 0 RER does not decrease; \
         non-trivial = the increment changes the produced-and-used energy and crosses the use at >= 1 step"
            .into()
    }
    fn assumptions() -> Vec<String> {
        vec![
            "RER clause only when total primary energy of both buildings is >= 1e-3 of the weighted scale".into(),
            "known finding KF-C14-rer-cogen-displaced excuses only the RER clause and only when used cogenerated electricity decreases".into(),
        ]
    }
    fn cases(tier: Tier) -> u32 {
        tier.pick(8_000, 800_000)
    }
    fn strategy(tier: Tier) -> BoxedStrategy<Case> {
        let mut p = params(tier);
        p.regime_pct = 70;
        // amounts from a hundredth of a kWh to 500 MWh in one step: a very seasonal production (steps
        // that are a negligible share of the year) is where relative thresholds bite
        let amount = || prop_oneof![2 => 1u32..=100, 5 => 1u32..=100_000, 2 => 1_000_000u32..=50_000_000];
        let inc = prop_oneof![
            3 => Just(Inc::Zero),
            2 => amount().prop_map(Inc::Cents),
            2 => Just(Inc::Fill),
            1 => Just(Inc::HalfFill),
            2 => amount().prop_map(Inc::Over),
            2 => amount().prop_map(Inc::SurplusOnly),
        ];
        (
            building(&p),
            regulatory(),
            prop_oneof![3 => Just(0.0f32), 4 => kexp_s()],
            area_s(),
            any::<bool>(),
            vec(inc, 1..=p.max_steps),
            proptest::sample::select(vec![0i32, 1, 9, -3]),
            prop::bool::weighted(0.3),
        )
            .prop_map(|(b, f, k, area, lm, inc, id, pure_surplus)| Case { base: BFCase { b, f, k, area, lm }, inc, id, pure_surplus })
            .boxed()
    }
    fn describe(c: &Case) -> Value {
        let mut v = c.base.describe();
        v["increment_EL_INSITU"] = serde_json::json!(increment(c));
        v["increment_id"] = serde_json::json!(c.id);
        v
    }
    fn check(c: &Case, ctx: &mut Ctx) -> CheckResult {
        let b0 = &c.base.b;
        crate::common::label_long(ctx, b0);
        let inc = increment(c);
        let b1 = add_line(b0, Line { id: c.id, kind: Kind::Prod { src: Src::EL_INSITU }, vals: inc.clone(), comment: String::new() });
        let i0 = inputs(b0, &c.base.f)?;
        let i1 = inputs(&b1, &c.base.f)?;
        let (k, area, lm) = (c.base.k, c.base.area, c.base.lm);
        let e0 = eval_sound(&i0.comps, &i0.factors, k, area, lm)?;
        let e1 = eval_sound(&i1.comps, &i1.factors, k, area, lm)?;
        let sc = i1.scales(area);
        let tw = 2.0 * tol(sc.tot_weighted, sc.n);
        let te = 2.0 * tol(sc.tot_energy, sc.n);
        let (w0, w1) = (&e0.balance.we, &e1.balance.we);
        for (name, x0, x1) in [
            ("step A non-renewable primary energy", w0.a.nren, w1.a.nren),
            ("step B non-renewable primary energy", w0.b.nren, w1.b.nren),
            ("step A CO2", w0.a.co2, w1.a.co2),
            ("step B CO2", w0.b.co2, w1.b.co2),
        ] {
            ensure!(x1 as f64 <= x0 as f64 + tw, "not_worse", "{} increases from {} to {} when on-site electricity is added", name, x0, x1);
        }
        ensure!(e1.balance.del.grid as f64 <= e0.balance.del.grid as f64 + te, "not_worse", "grid-delivered energy increases from {} to {}", e0.balance.del.grid, e1.balance.del.grid);
        let el = Car::ELECTRICIDAD.to_lib();
        let g0 = e0.balance_cr.get(&el).map(|b| b.del.grid_an).unwrap_or(0.0);
        let g1 = match e1.balance_cr.get(&el) {
            Some(b) => b.del.grid_an,
            None => fail!("carriers", "no electricity balance after adding on-site production"),
        };
        let tel = 2.0 * tol(sc.s_energy(Some(Car::ELECTRICIDAD)), sc.n);
        ensure!(g1 as f64 <= g0 as f64 + tel, "not_worse", "grid-delivered electricity increases from {} to {}", g0, g1);
        // RER clause
        let used_chp = |e: &cteepbd::types::EnergyPerformance| e.balance.prod.epus_by_src.get(&Src::EL_COGEN.to_lib()).cloned().unwrap_or(0.0) as f64;
        if k == 0.0 {
            let (t0, t1) = ((w0.b.ren + w0.b.nren) as f64, (w1.b.ren + w1.b.nren) as f64);
            if t0 >= 1e-3 * sc.tot_weighted && t1 >= 1e-3 * sc.tot_weighted {
                let rt = ratio_tol(tol(sc.tot_weighted, sc.n), t0.min(t1));
                if (e1.rer as f64) < e0.rer as f64 - 2.0 * rt {
                    let displaced = used_chp(&e1) < used_chp(&e0) - tel;
                    let what = format!("RER falls from {} to {} when added on-site electricity displaces used cogenerated electricity ({} -> {} kWh)", e0.rer, e1.rer, used_chp(&e0), used_chp(&e1));
                    if !(displaced && ctx.excuse("KF-C14-rer-cogen-displaced", what)) {
                        fail!("rer_not_lower", "k_exp = 0: RER falls from {} to {} when on-site electricity is added (used cogenerated electricity {} -> {})", e0.rer, e1.rer, used_chp(&e0), used_chp(&e1));
                    }
                }
                ctx.label("rer_checked");
            } else {
                ctx.skip("ratio_den_noise");
            }
        }
        if used_chp(&e1) < used_chp(&e0) - tel {
            ctx.count("excluded_by_known_finding_signature(cogen displaced)", 1);
        }
        if let Some(bc) = e0.balance_cr.get(&el) {
            if bc.exp.grid_an == 0.0 && bc.exp.nepus_an > 0.0 {
                ctx.label("base:all_surplus_to_nepb");
                if e1.balance_cr.get(&el).map(|b| b.exp.grid_an > 0.0).unwrap_or(false) {
                    ctx.label("increment_pushes_surplus_to_grid");
                    if k == 0.0 {
                        ctx.label("increment_pushes_surplus_to_grid(k=0)");
                    }
                }
            }
        }
        let (us, pv, _) = elec_use_pv(b0);
        let crosses = (0..b0.n).any(|t| pv[t] < us[t] && pv[t] + inc[t] as f64 >= us[t]);
        let changes = (e1.balance.prod.epus_by_src.get(&Src::EL_INSITU.to_lib()).cloned().unwrap_or(0.0)
            - e0.balance.prod.epus_by_src.get(&Src::EL_INSITU.to_lib()).cloned().unwrap_or(0.0))
        .abs() as f64
            > te;
        if crosses {
            ctx.label("crosses_use");
        }
        if changes && crosses {
            ctx.nontrivial = true;
        }
        Ok(())
    }
}
