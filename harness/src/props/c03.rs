//! C03 k_exp only interpolates between step A and step B (metamorphic, four evaluations).

use proptest::prelude::*;
use serde::{Deserialize, Serialize};
use serde_json::Value;

use crate::common::*;
use crate::engine::*;
use crate::flat::{flat, Flat, EK};
use crate::tol::{ratio_tol, tol};
use crate::{ensure, fail};

pub struct C03;

#[derive(Clone, Debug, Serialize, Deserialize)]
pub struct Case {
    pub base: BFCase,
    pub k1: f32,
    pub k2: f32,
}

/// does the last path component name a quantity that may depend on k_exp?
fn depends_on_k(path: &str) -> bool {
    // we.b, we.b_by_srv.*, we.exp
    path.contains(".we.b") || path.ends_with(".we.exp")
}

impl Prop for C03 {
    type Case = Case;
    const ID: &'static str = "C03";
    fn rule() -> String {
        "cases = building() x factor_case() x load matching x (k1, k2) interior; each case is evaluated at k_exp = 0, 1, k1, k2; \
         oracle = affine relation w(k) = w(0) + k (w(1) - w(0)) on every weighted field, B(0) = A, k-independence of final-energy flows and step A; \
         non-trivial = the building exports and B(1) differs from A by more than 100 tol"
            .into()
    }
    fn assumptions() -> Vec<String> {
        vec![
            "two evaluations of the same input differ by summation order (HashMap iteration), so identity is demanded up to the DESIGN 3.4 tolerance".into(),
            "RER is a ratio and is only required to be k-independent when nothing is exported (denominator rule applies)".into(),
        ]
    }
    fn cases(tier: Tier) -> u32 {
        tier.pick(3_000, 400_000)
    }
    fn strategy(tier: Tier) -> BoxedStrategy<Case> {
        (bf_case(params(tier), 60), 1u32..1000, 1u32..1000)
            .prop_map(|(base, a, b)| Case { base, k1: a as f32 / 1000.0, k2: b as f32 / 1000.0 })
            .boxed()
    }
    fn describe(c: &Case) -> Value {
        let mut v = c.base.describe();
        v["k1"] = serde_json::json!(c.k1);
        v["k2"] = serde_json::json!(c.k2);
        v
    }
    fn check(c: &Case, ctx: &mut Ctx) -> CheckResult {
        let inp = inputs(&c.base.b, &c.base.f)?;
        crate::common::label_long(ctx, &c.base.b);
        let sc = inp.scales(c.base.area);
        let ks = [0.0f32, 1.0, c.k1, c.k2];
        let mut fl: Vec<Flat> = vec![];
        let mut eps = vec![];
        for k in ks {
            let ep = eval_sound(&inp.comps, &inp.factors, k, c.base.area, c.base.lm)?;
            ensure!(ep.k_exp == k, "k_echo", "k_exp echoed as {} for {}", ep.k_exp, k);
            fl.push(flat(&ep));
            eps.push(ep);
        }
        let exports = eps[0].balance_cr.values().any(|b| b.exp.an != 0.0);
        let mut big = false;
        for (path, e0) in &fl[0] {
            if e0.kind == EK::Param {
                continue;
            }
            let t = sc.tol_entry(e0);
            let get = |i: usize| -> Result<&Vec<f64>, Failure> {
                match fl[i].get(path) {
                    Some(e) if e.vals.len() == e0.vals.len() => Ok(&e.vals),
                    Some(_) => Err(Failure::new("shape", format!("`{}` changes length with k_exp", path))),
                    None => {
                        if e0.sparse {
                            Err(Failure::new("sparse", String::new()))
                        } else {
                            Err(Failure::new("keys", format!("`{}` present at k_exp=0 and absent at k_exp={}", path, ks[i])))
                        }
                    }
                }
            };
            match e0.kind {
                EK::Weighted => {
                    let v1 = match get(1) {
                        Ok(v) => v,
                        Err(f) if f.sub == "sparse" => continue,
                        Err(f) => return Err(f),
                    };
                    for (i, k) in [(2usize, c.k1 as f64), (3usize, c.k2 as f64)] {
                        let vk = match get(i) {
                            Ok(v) => v,
                            Err(f) if f.sub == "sparse" => continue,
                            Err(f) => return Err(f),
                        };
                        for j in 0..e0.vals.len() {
                            let expect = e0.vals[j] + k * (v1[j] - e0.vals[j]);
                            ensure!((vk[j] - expect).abs() <= 3.0 * t, "affine", "`{}`[{}] at k={}: {} but A + k (B(1) - A) = {} (A = {}, B(1) = {})", path, j, k, vk[j], expect, e0.vals[j], v1[j]);
                        }
                    }
                    if !depends_on_k(path) {
                        for j in 0..e0.vals.len() {
                            ensure!((v1[j] - e0.vals[j]).abs() <= 2.0 * t, "k_independent", "`{}`[{}] depends on k_exp: {} at k=0, {} at k=1", path, j, e0.vals[j], v1[j]);
                        }
                    } else {
                        for j in 0..e0.vals.len() {
                            if (v1[j] - e0.vals[j]).abs() > 100.0 * t {
                                big = true;
                            }
                            if !exports {
                                ensure!((v1[j] - e0.vals[j]).abs() <= 2.0 * t, "no_export_same", "nothing exported but `{}`[{}] = {} at k=0 and {} at k=1", path, j, e0.vals[j], v1[j]);
                            }
                        }
                    }
                }
                EK::Energy | EK::StepVec | EK::RatioVec | EK::Need => {
                    for i in 1..4 {
                        let vk = match get(i) {
                            Ok(v) => v,
                            Err(f) if f.sub == "sparse" => continue,
                            Err(f) => return Err(f),
                        };
                        for j in 0..e0.vals.len() {
                            ensure!((vk[j] - e0.vals[j]).abs() <= 2.0 * t, "k_independent", "`{}`[{}] depends on k_exp: {} at k=0, {} at k={}", path, j, e0.vals[j], vk[j], ks[i]);
                        }
                    }
                }
                EK::Ratio | EK::Param => {}
            }
        }
        for i in 1..4 {
            for path in fl[i].keys() {
                if !fl[0].contains_key(path) && !fl[i][path].sparse {
                    fail!("keys", "`{}` absent at k_exp=0 and present at k_exp={}", path, ks[i]);
                }
            }
        }
        // B(0) = A, per carrier, per service, total, per m2
        for (path, e) in &fl[0] {
            if e.kind == EK::Weighted && path.contains(".we.b") {
                let apath = path.replacen(".we.b", ".we.a", 1);
                let a = match fl[0].get(&apath) {
                    Some(a) => a,
                    None => fail!("B(0)=A", "`{}` has no step A counterpart `{}`", path, apath),
                };
                let t = sc.tol_entry(e);
                for j in 0..3 {
                    ensure!((e.vals[j] - a.vals[j]).abs() <= 2.0 * t, "B(0)=A", "k_exp=0: `{}`[{}] = {} but `{}` = {}", path, j, e.vals[j], apath, a.vals[j]);
                }
            }
        }
        // exp(k) = exp_a + k exp_ab per carrier
        for (i, k) in ks.iter().enumerate() {
            for b in eps[i].balance_cr.values() {
                let t = tol(sc.s_weighted(Some(crate::dom::Car::from_lib(b.carrier))), sc.n);
                let e = [b.we.exp.ren, b.we.exp.nren, b.we.exp.co2];
                let a = [b.we.exp_a.ren, b.we.exp_a.nren, b.we.exp_a.co2];
                let ab = [b.we.exp_ab.ren, b.we.exp_ab.nren, b.we.exp_ab.co2];
                for j in 0..3 {
                    let expect = a[j] as f64 + *k as f64 * ab[j] as f64;
                    ensure!((e[j] as f64 - expect).abs() <= 2.0 * t, "formula20", "{:?}: we.exp[{}] = {} but exp_a + k exp_ab = {}", b.carrier, j, e[j], expect);
                }
            }
        }
        // nothing exported => same result for every k (including the ratios)
        if !exports {
            let den = (eps[0].balance.we.b.ren + eps[0].balance.we.b.nren).abs() as f64;
            if den >= 1e-3 * sc.tot_weighted && den > 0.0 {
                let rt = ratio_tol(tol(sc.tot_weighted, sc.n), den);
                for i in 1..4 {
                    for (name, a, b) in [
                        ("rer", eps[0].rer, eps[i].rer),
                        ("rer_nrb", eps[0].rer_nrb, eps[i].rer_nrb),
                        ("rer_onst", eps[0].rer_onst, eps[i].rer_onst),
                    ] {
                        ensure!(((a - b).abs() as f64) <= rt * (1.0 + a.abs().max(b.abs()) as f64), "no_export_same", "nothing exported but {} = {} at k=0 and {} at k={}", name, a, b, ks[i]);
                    }
                }
            } else {
                ctx.skip("ratio_den_noise");
            }
            ctx.label("no_exports");
        } else {
            ctx.label("exports");
        }
        if exports && big {
            ctx.nontrivial = true;
        }
        Ok(())
    }
}
