//! C07 Preparing weighting factors: complete, respectful of user values, idempotent.

use proptest::prelude::*;
use serde::{Deserialize, Serialize};
use serde_json::Value;

use cteepbd::error::EpbdError;
use cteepbd::{cte, energy_performance, Factors};

use crate::common::*;
use crate::dom::*;
use crate::engine::*;
use crate::fgen::*;
use crate::gen::{area_s, building, kexp_s, Building};
use crate::{ensure, fail};

pub struct C07;

#[derive(Clone, Debug, Serialize, Deserialize)]
pub enum Unusable {
    /// the electricity grid supply line is removed
    NoElectricityGrid,
    /// a line of a carrier that has no grid supply line in the file
    OrphanLine(Car),
}

#[derive(Clone, Debug, Serialize, Deserialize)]
pub struct Case {
    pub f: FactorCase,
    pub unusable: Option<Unusable>,
    pub b: Building,
    pub k: f32,
    pub area: f32,
    pub lm: bool,
}

type Key = (Car, FSrc, FDest, FStep);

fn file_lines(f: &FactorCase) -> Vec<FLine> {
    match f {
        FactorCase::UserFile { lines, .. } => lines.clone(),
        FactorCase::Regulatory { loc, .. } => cte::CTE_LOCWF_RITE2014[loc.as_str()]
            .wdata
            .iter()
            .map(|x| FLine {
                car: Car::from_lib(x.carrier),
                src: FSrc::from_lib(x.source),
                dest: FDest::from_lib(x.dest),
                step: FStep::from_lib(x.step),
                f: [x.ren, x.nren, x.co2],
                comment: x.comment.clone(),
            })
            .collect(),
    }
}

fn find_first(p: &Factors, k: Key) -> Option<[f32; 3]> {
    p.wdata
        .iter()
        .find(|x| Car::from_lib(x.carrier) == k.0 && FSrc::from_lib(x.source) == k.1 && FDest::from_lib(x.dest) == k.2 && FStep::from_lib(x.step) == k.3)
        .map(|x| [x.ren, x.nren, x.co2])
}

fn effective(c: &Case) -> FactorCase {
    match (&c.f, &c.unusable) {
        (FactorCase::UserFile { meta, lines, red1, red2 }, Some(u)) => {
            let mut lines = lines.clone();
            match u {
                Unusable::NoElectricityGrid => {
                    lines.retain(|l| !(l.car == Car::ELECTRICIDAD && l.src == FSrc::RED));
                    if lines.len() % 2 == 0 {
                        lines.insert(0, FLine { car: Car::ELECTRICIDAD, src: FSrc::RED, dest: FDest::SUMINISTRO, step: FStep::B, f: [0.4, 2.0, 0.3], comment: String::new() });
                    }
                    // electricity must still appear in the set (a set without any electricity
                    // factor is simply a set for buildings without electricity)
                    if !lines.iter().any(|l| l.car == Car::ELECTRICIDAD) {
                        lines.push(FLine { car: Car::ELECTRICIDAD, src: FSrc::INSITU, dest: FDest::A_RED, step: FStep::A, f: [0.5, 0.5, 0.5], comment: String::new() });
                    }
                }
                Unusable::OrphanLine(car) => {
                    let orphan = if lines.iter().any(|l| l.car == *car && l.src == FSrc::RED && l.dest == FDest::SUMINISTRO && l.step == FStep::A) || matches!(car, Car::EAMBIENTE | Car::TERMOSOLAR) {
                        // the carrier has its grid line: make electricity the orphan instead
                        lines.retain(|l| !(l.car == Car::ELECTRICIDAD && l.src == FSrc::RED));
                        if !lines.iter().any(|l| l.car == Car::ELECTRICIDAD) {
                            lines.push(FLine { car: Car::ELECTRICIDAD, src: FSrc::INSITU, dest: FDest::A_NEPB, step: FStep::B, f: [0.5, 0.5, 0.5], comment: String::new() });
                        }
                        None
                    } else {
                        Some(*car)
                    };
                    if let Some(car) = orphan {
                        // the orphan line is an export factor or - two times in three - a RED-sourced line that is not the
                        // step A supply factor (it must not pass for one)
                        let (src, dest, step) = match car.idx() % 3 {
                            0 => (FSrc::INSITU, FDest::A_RED, FStep::A),
                            1 => (FSrc::RED, FDest::SUMINISTRO, FStep::B),
                            _ => (FSrc::RED, FDest::A_RED, FStep::A),
                        };
                        lines.push(FLine { car, src, dest, step, f: [0.5, 0.5, 0.5], comment: String::new() });
                    }
                }
            }
            FactorCase::UserFile { meta: meta.clone(), lines, red1: *red1, red2: *red2 }
        }
        _ => c.f.clone(),
    }
}

const ONE: [f32; 3] = [1.0, 0.0, 0.0];

impl Prop for C07 {
    type Case = Case;
    const ID: &'static str = "C07";
    fn rule() -> String {
        "cases = factor_case(): user files (any subset of carriers, each of the 12 user-definable export lines and 3 on-site supply lines present or absent, duplicates of a key, distinct values, shuffled order) or one of the 4 locations, \
         user RED1/RED2 given or not; 15 % unusable files (electricity grid line removed, or a line of a carrier without grid supply line); then a building() over the carriers of the prepared set; \
         oracle = kept lines bit-identical through find(), forced keys (1,0,0), defaults (step A export = on-site supply, step B export = grid supply), RED1/RED2 precedence user > file > (0,1.3,0.3), no MissingFactor in the evaluation, \
         normalize again and re-prepare through the printed text change nothing, unusable => Err; \
         non-trivial = the file gives at least one export line and omits at least one, or is unusable"
            .into()
    }
    fn assumptions() -> Vec<String> {
        vec![
            "generated usable sets contain ELECTRICIDAD, RED, SUMINISTRO, A (every real set does); an unusable set always keeps some line of the carrier whose grid factor is missing".into(),
            "no COGEN-source lines in user files (removed from the format)".into(),
            "factor values are thousandths, so printing with 3 decimals is exact".into(),
        ]
    }
    fn cases(tier: Tier) -> u32 {
        tier.pick(4_000, 400_000)
    }
    fn strategy(tier: Tier) -> BoxedStrategy<Case> {
        let fc = prop_oneof![
            7 => user_file_g().prop_map(|g| resolve_user_file(&g, &[], true)),
            3 => regulatory(),
        ];
        let unusable = proptest::option::weighted(
            0.15,
            prop_oneof![
                Just(Unusable::NoElectricityGrid),
                proptest::sample::select(vec![Car::GASNATURAL, Car::BIOMASA, Car::CARBON, Car::GLP, Car::GASOLEO, Car::BIOCARBURANTE]).prop_map(Unusable::OrphanLine),
            ],
        );
        (fc, unusable)
            .prop_flat_map(move |(f, unusable)| {
                // carriers of the prepared set: those with a grid line + the ones preparation adds
                let mut cars: Vec<Car> = file_lines(&f).iter().filter(|l| l.src == FSrc::RED && l.dest == FDest::SUMINISTRO && l.step == FStep::A).map(|l| l.car).collect();
                cars.extend([Car::EAMBIENTE, Car::TERMOSOLAR, Car::RED1, Car::RED2, Car::ELECTRICIDAD]);
                cars.sort();
                cars.dedup();
                let mut p = params(tier);
                p.carriers = cars;
                p.cogen_heavy = true;
                (Just(f), Just(unusable), building(&p), kexp_s(), area_s(), any::<bool>())
            })
            .prop_map(|(f, unusable, b, k, area, lm)| {
                let unusable = if f.is_regulatory() { None } else { unusable };
                Case { f, unusable, b, k, area, lm }
            })
            .boxed()
    }
    fn describe(c: &Case) -> Value {
        serde_json::json!({"factors": effective(c).describe(), "unusable": format!("{:?}", c.unusable), "components": c.b.render(), "k_exp": c.k, "area": c.area, "load_matching": c.lm})
    }
    fn check(c: &Case, ctx: &mut Ctx) -> CheckResult {
        let fc = effective(c);
        let prepared = fc.prepare();
        if c.unusable.is_some() {
            // (g) an unusable set is rejected
            match prepared {
                Err(EpbdError::MissingFactor(_)) | Err(EpbdError::WrongInput(_)) | Err(EpbdError::ParseError(_)) => {
                    ctx.label("unusable_rejected");
                    ctx.nontrivial = true;
                    return Ok(());
                }
                Ok(_) => fail!("unusable_accepted", "a factor set with a carrier lacking its grid supply factor was accepted"),
            }
        }
        let p = match prepared {
            Ok(p) => p,
            Err(e) => fail!("usable_rejected", "a usable factor set was rejected: {}", e),
        };
        let lines = file_lines(&fc);
        let (user1, user2) = match &fc {
            FactorCase::UserFile { red1, red2, .. } | FactorCase::Regulatory { red1, red2, .. } => (*red1, *red2),
        };
        let has_el = lines.iter().any(|l| l.car == Car::ELECTRICIDAD);
        let forced = |k: &Key| -> bool {
            (matches!(k.0, Car::EAMBIENTE | Car::TERMOSOLAR) && matches!(k.1, FSrc::INSITU | FSrc::RED) && k.2 == FDest::SUMINISTRO && k.3 == FStep::A)
                || (k.0 == Car::ELECTRICIDAD && has_el && k.1 == FSrc::INSITU && k.2 == FDest::SUMINISTRO && k.3 == FStep::A)
        };
        let overridden = |k: &Key| -> bool {
            k.1 == FSrc::RED && k.2 == FDest::SUMINISTRO && k.3 == FStep::A && ((k.0 == Car::RED1 && user1.is_some()) || (k.0 == Car::RED2 && user2.is_some()))
        };
        // (a) kept lines
        let mut seen: Vec<Key> = vec![];
        for l in &lines {
            let k = l.key();
            if seen.contains(&k) {
                continue;
            }
            seen.push(k);
            if forced(&k) || overridden(&k) {
                continue;
            }
            let got = find_first(&p, k);
            ensure!(got == Some(l.f), "user_value_kept", "factor {:?} given as {:?} but the prepared set holds {:?}", k, l.f, got);
            let lib = p.find(k.0.to_lib(), k.1.to_lib(), k.2.to_lib(), k.3.to_lib()).map(|r| [r.ren, r.nren, r.co2]).ok();
            ensure!(lib == Some(l.f), "user_value_kept", "find({:?}) returns {:?}, the file says {:?}", k, lib, l.f);
        }
        // (b) forced keys
        for car in [Car::EAMBIENTE, Car::TERMOSOLAR] {
            for src in [FSrc::INSITU, FSrc::RED] {
                let got = find_first(&p, (car, src, FDest::SUMINISTRO, FStep::A));
                ensure!(got == Some(ONE), "forced", "{} {} supply factor is {:?}, not (1, 0, 0)", car.name(), src.name(), got);
            }
        }
        if has_el {
            let got = find_first(&p, (Car::ELECTRICIDAD, FSrc::INSITU, FDest::SUMINISTRO, FStep::A));
            ensure!(got == Some(ONE), "forced", "on-site electricity supply factor is {:?}, not (1, 0, 0)", got);
        }
        // (c) defaults
        let mut given = 0;
        let mut omitted = 0;
        for car in EXP_CARS {
            let onsite = find_first(&p, (car, FSrc::INSITU, FDest::SUMINISTRO, FStep::A));
            let grid = find_first(&p, (car, FSrc::RED, FDest::SUMINISTRO, FStep::A));
            ensure!(grid.is_some(), "complete", "{} has no grid supply factor in the prepared set", car.name());
            for dest in [FDest::A_RED, FDest::A_NEPB] {
                for step in [FStep::A, FStep::B] {
                    let k = (car, FSrc::INSITU, dest, step);
                    let got = find_first(&p, k);
                    ensure!(got.is_some(), "complete", "export factor {:?} missing from the prepared set", k);
                    if seen.contains(&k) {
                        given += 1;
                    } else {
                        omitted += 1;
                        let expect = if step == FStep::A { onsite } else { grid };
                        ensure!(got == expect, "default", "omitted export factor {:?} defaults to {:?}, expected {:?}", k, got, expect);
                    }
                }
            }
        }
        // (d) RED1 / RED2
        for (car, user) in [(Car::RED1, user1), (Car::RED2, user2)] {
            let k = (car, FSrc::RED, FDest::SUMINISTRO, FStep::A);
            let file = lines.iter().find(|l| l.key() == k).map(|l| l.f);
            let expect = user.or(file).unwrap_or([0.0, 1.3, 0.3]);
            let got = find_first(&p, k);
            ensure!(got == Some(expect), "red_precedence", "{} factor is {:?}; user {:?}, file {:?}, default (0, 1.3, 0.3)", car.name(), got, user, file);
        }
        // every carrier of the file has its grid factor
        for l in &lines {
            ensure!(find_first(&p, (l.car, FSrc::RED, FDest::SUMINISTRO, FStep::A)).is_some(), "complete", "carrier {} has no grid supply factor", l.car.name());
        }
        // (f) idempotence
        let again = match p.clone().normalize(&cte::CTE_USERWF) {
            Ok(a) => a,
            Err(e) => fail!("idempotent", "normalising a prepared set fails: {}", e),
        };
        ensure!(format!("{:?}", again.wdata) == format!("{:?}", p.wdata), "idempotent", "normalising a prepared set changes its factors");
        ensure!(format!("{:?}", again.wmeta) == format!("{:?}", p.wmeta), "idempotent", "normalising a prepared set changes its metadata");
        let re = match cte::wfactors_from_str(&p.to_string(), fc.user(), cte::CTE_USERWF) {
            Ok(a) => a,
            Err(e) => fail!("idempotent", "preparing the printed prepared set fails: {}", e),
        };
        ensure!(re.wdata.len() == p.wdata.len(), "idempotent", "re-preparing changes the number of factors from {} to {}", p.wdata.len(), re.wdata.len());
        for (x, y) in p.wdata.iter().zip(re.wdata.iter()) {
            ensure!(
                // (values to the three decimals of the printed set: a factor such as 0.0004 prints as 0.000)
                x.carrier == y.carrier && x.source == y.source && x.dest == y.dest && x.step == y.step && (x.ren - y.ren).abs() <= 0.000501 && (x.nren - y.nren).abs() <= 0.000501 && (x.co2 - y.co2).abs() <= 0.000501 && x.comment == y.comment,
                "idempotent",
                "re-preparing changes `{}` into `{}`",
                x,
                y
            );
        }
        // (e) completeness: no missing factor for a building over the set's carriers
        let comps = parse_sound(&c.b)?;
        match energy_performance(&comps, &p, c.k, c.area, c.lm) {
            Ok(_) => {}
            Err(EpbdError::MissingFactor(m)) => fail!("missing_factor", "evaluation over the set's own carriers misses factor {}", m),
            Err(e) => fail!("sound_evaluation_failed", "{}", e),
        }
        if fc.is_regulatory() {
            ctx.label("regulatory");
        } else {
            ctx.label("user_file");
        }
        if user1.is_some() || user2.is_some() {
            ctx.label("user_red");
        }
        if given >= 1 && omitted >= 1 {
            ctx.nontrivial = true;
        }
        Ok(())
    }
}
