//! C11 Results scale linearly with energy and inversely with area.

use proptest::prelude::*;
use serde::{Deserialize, Serialize};
use serde_json::Value;

use cteepbd::cte::fraccion_renovable_acs_nrb;

use crate::common::*;
use crate::engine::*;
use crate::flat::{flat, Flat, EK};
use crate::tol::{compare_flats, ratio_tol, tol, CmpOpts};
use crate::xform::*;
use crate::{ensure, fail};

pub struct C11;

#[derive(Clone, Debug, Serialize, Deserialize)]
pub struct Case {
    pub base: BFCase,
    /// index into the list of candidate scale factors
    pub ci: usize,
    /// when present, the building and factors come from the DHW grammar (small DHW quantities,
    /// auxiliaries, shared PV, biomass): the absolute thresholds of the DHW indicator are in reach
    #[serde(default)]
    pub dhw: Option<crate::dhw::DhwCase>,
    /// 0 = as generated; k > 0: every non-zero magnitude v of the base building becomes 0.01 + v / 10^(k+2)
    /// (a building of a few hundredths of a kWh per value, differences down to 1e-7 kWh)
    #[serde(default)]
    pub tiny: u8,
}

pub fn base_of(c: &Case) -> BFCase {
    match &c.dhw {
        Some(d) => BFCase { b: d.building(), f: d.factors(), k: d.k, area: c.base.area, lm: d.lm },
        None if c.tiny > 0 => BFCase { b: tiny(&c.base.b, 10f32.powi(c.tiny as i32 + 2)), ..c.base.clone() },
        None => c.base.clone(),
    }
}

pub fn candidates() -> Vec<f32> {
    let mut v: Vec<f32> = (-6..=20).map(|k| 2f32.powi(k)).collect();
    v.extend([3.7f32, 10.0, 1e3, 1e6, 0.1]);
    v
}

/// the scale factor actually applied: the drawn one if both buildings stay inside the property's
/// domain (every non-zero value in [0.01, 1e9]); otherwise 2, otherwise 1
pub fn effective_c(c: &Case) -> (f32, bool) {
    let cands = candidates();
    let want = cands[c.ci % cands.len()];
    match magnitude_range(&base_of(c).b) {
        None => (want, false),
        Some((lo, hi)) => {
            let ok = |k: f32| (lo * k) >= 0.01 && (hi * k) <= 1e9 && lo >= 0.01;
            if ok(want) {
                (want, false)
            } else if ok(2.0) {
                (2.0, true)
            } else {
                (1.0, true)
            }
        }
    }
}

fn times(f: &Flat, c: f64) -> Flat {
    f.iter()
        .map(|(k, e)| {
            let mut e = e.clone();
            if matches!(e.kind, EK::Energy | EK::StepVec | EK::Weighted | EK::Need) {
                for v in &mut e.vals {
                    *v *= c;
                }
            }
            (k.clone(), e)
        })
        .collect()
}

impl Prop for C11 {
    type Case = Case;
    const ID: &'static str = "C11";
    fn rule() -> String {
        "cases = building() with DEMANDA lines (values 0 or in [0.01, 1e4]) (30 % of cases: every magnitude v mapped to 0.01 + v/10^k, k=3..6, a building of hundredths of a kWh where absolute thresholds bite; 30 %: the DHW grammar) x factor_case() x k_exp x area x load matching x scale c in {2^k, k=-6..20} U {3.7, 10, 1e3, 1e6, 0.1} such that every non-zero scaled value stays in [0.01, 1e9]; \
         oracle = energies / weighted energies / per-step vectors of the scaled building equal c x base, RER*, f_match and the DHW renewable fraction (or its error) unchanged; area x c divides the per-m2 block by c and changes nothing else; \
         non-trivial = the building exports, has two sources on a carrier or a DHW demand, and c != 1"
            .into()
    }
    fn assumptions() -> Vec<String> {
        vec![
            "domain of the property: values zero or >= 0.01 kWh, applied to the base and to the scaled building".into(),
            "powers of two scale f32 inputs exactly; two evaluations still sum in different HashMap orders, so equality is up to the DESIGN 3.4 tolerance".into(),
            "DHW fraction compared only when the DHW demand is >= 1e-3 of the building's energy scale (ratio noise rule)".into(),
        ]
    }
    fn cases(tier: Tier) -> u32 {
        tier.pick(6_000, 400_000)
    }
    fn strategy(tier: Tier) -> BoxedStrategy<Case> {
        let mut p = params(tier);
        p.with_needs = true;
        p.huge_kwh = 0;
        (bf_case(p, 40), 0usize..candidates().len(), proptest::option::weighted(0.3, crate::dhw::dhw_case(12)), prop_oneof![7 => Just(0u8), 3 => 1u8..=4])
            .prop_map(|(base, ci, dhw, tiny)| Case { base, ci, dhw, tiny })
            .boxed()
    }
    fn describe(c: &Case) -> Value {
        let mut v = base_of(c).describe();
        v["scale"] = serde_json::json!(effective_c(c).0);
        v
    }
    fn check(c: &Case, ctx: &mut Ctx) -> CheckResult {
        let (cf, fallback) = effective_c(c);
        if fallback {
            ctx.label("scale_fallback");
        }
        ctx.label(if cf == 1.0 { "c=1".to_string() } else if cf > 1.0 { "c>1".to_string() } else { "c<1".to_string() });
        let base = base_of(c);
        if c.dhw.is_some() {
            ctx.label("dhw_grammar");
        } else if c.tiny > 0 {
            ctx.label("tiny_building");
        }
        let b0 = &base.b;
        let b1 = scale(b0, cf);
        let i0 = inputs(b0, &base.f)?;
        let i1 = inputs(&b1, &base.f)?;
        let (k, area, lm) = (base.k, base.area, base.lm);
        let e0 = eval_sound(&i0.comps, &i0.factors, k, area, lm)?;
        let e1 = eval_sound(&i1.comps, &i1.factors, k, area, lm)?;
        let sc0 = i0.scales(area);
        let sc1 = sc0.scaled(cf as f64);
        let (f0, f1) = (flat(&e0), flat(&e1));
        compare_flats(&times(&f0, cf as f64), &f1, &sc1, &CmpOpts { names: ("c x base", "scaled"), sub: "linear", tol_mult: 2.0, ..Default::default() })?;
        let den = (e0.balance.we.b.ren + e0.balance.we.b.nren).abs() as f64;
        if den >= 1e-3 * sc0.tot_weighted && den > 0.0 {
            let rt = ratio_tol(tol(sc0.tot_weighted, sc0.n), den);
            for (name, x, y) in [("rer", e0.rer, e1.rer), ("rer_nrb", e0.rer_nrb, e1.rer_nrb), ("rer_onst", e0.rer_onst, e1.rer_onst)] {
                ensure!(((x - y).abs() as f64) <= 2.0 * rt * (1.0 + x.abs().max(y.abs()) as f64), "ratios", "{}: {} for the base building, {} for the building scaled by {}", name, x, y, cf);
            }
        } else {
            ctx.skip("ratio_den_noise");
        }
        // DHW renewable fraction
        let d0 = catch(|| fraccion_renovable_acs_nrb(&e0));
        let d1 = catch(|| fraccion_renovable_acs_nrb(&e1));
        let (d0, d1) = match (d0, d1) {
            (Ok(a), Ok(b)) => (a, b),
            (Err(p), _) | (_, Err(p)) => fail!("dhw_panics", "fraccion_renovable_acs_nrb panicked: {}", p),
        };
        let mut has_dhw = false;
        match (&d0, &d1) {
            (Ok(a), Ok(b)) => {
                has_dhw = true;
                let dem = e0.balance.needs.ACS.unwrap_or(0.0).abs() as f64;
                if a.is_nan() && b.is_nan() {
                    // undefined share (a carrier whose factors are all zero): unchanged by scaling
                    ctx.label("dhw_nan");
                } else if dem >= 1e-3 * sc0.tot_energy && dem > 0.0 {
                    let rt = ratio_tol(tol(sc0.tot_energy, sc0.n), dem);
                    ensure!(((a - b).abs() as f64) <= 4.0 * rt + 1e-5, "dhw_fraction", "DHW renewable fraction {} for the base building, {} after scaling by {}", a, b, cf);
                    ctx.label("dhw_value");
                } else {
                    ctx.skip("dhw_den_noise");
                }
            }
            (Err(_), Err(_)) => {
                // an error at both scales (which one, and in which words, no listed property says)
                ctx.label("dhw_error");
            }
            // a demand that is zero within the noise rule (below 1e-3 of the energy scale: e.g. DEMANDA steps
            // of opposite signs that cancel to 1e-8 kWh) may be called "zero" at one scale and not at another
            (Ok(_), Err(_)) | (Err(_), Ok(_)) if (e0.balance.needs.ACS.unwrap_or(0.0).abs() as f64) < 1e-3 * sc0.tot_energy => {
                ctx.skip("dhw_den_noise");
            }
            (Ok(a), Err(b)) => fail!("dhw_fraction", "DHW renewable fraction {} for the base building but error `{}` after scaling by {}", a, b, cf),
            (Err(a), Ok(b)) => fail!("dhw_fraction", "DHW renewable fraction error `{}` for the base building but {} after scaling by {}", a, b, cf),
        }
        // area x c
        let area2 = area * cf;
        if area2 >= 1e-3 && area2.is_finite() {
            let e2 = eval_sound(&i0.comps, &i0.factors, k, area2, lm)?;
            let f2 = flat(&e2);
            let scale_m2 = |f: &Flat, c: f64| -> Flat {
                f.iter()
                    .map(|(k, e)| {
                        let mut e = e.clone();
                        if e.m2 {
                            for v in &mut e.vals {
                                *v /= c;
                            }
                        }
                        (k.clone(), e)
                    })
                    .collect()
            };
            let mut sc2 = sc0.clone();
            sc2.area = area2 as f64;
            compare_flats(&scale_m2(&f0, cf as f64), &f2, &sc2, &CmpOpts { ignore: &["arearef"], names: ("base/c", "area x c"), sub: "area_inverse", tol_mult: 2.0, ..Default::default() })?;
        } else {
            ctx.skip("area_out_of_range");
        }
        let exports = e0.balance_cr.values().any(|b| b.exp.an != 0.0);
        let two_src = e0.balance_cr.values().any(|b| b.prod.by_src_an.len() >= 2);
        if cf != 1.0 && exports && (two_src || has_dhw) {
            ctx.nontrivial = true;
        }
        Ok(())
    }
}
