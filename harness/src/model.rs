//! Reference model (DESIGN 3.5): the EN ISO 52000-1 balance equations (2), (9)-(14), (20)-(28),
//! (32) re-evaluated in f64 with plain loops, from the documented assumptions. No library logic is
//! called: the library's data structures are only read (line by line) to obtain the inputs.

use std::collections::BTreeMap;

use cteepbd::types::Energy;
use cteepbd::{Components, Factors};

use crate::dom::*;
use crate::flat::{put, Flat, EK};

#[derive(Clone, Debug, PartialEq)]
pub enum MKind {
    Used { srv: Srv, car: Car },
    Prod { src: Src },
    Aux { srv: Srv },
    Out { srv: Srv },
}

#[derive(Clone, Debug)]
pub struct MLine {
    pub id: i32,
    pub kind: MKind,
    pub vals: Vec<f64>,
    pub comment: String,
}

impl MLine {
    pub fn carrier(&self) -> Option<Car> {
        match &self.kind {
            MKind::Used { car, .. } => Some(*car),
            MKind::Prod { src } => Some(src.carrier()),
            MKind::Aux { .. } => Some(Car::ELECTRICIDAD),
            MKind::Out { .. } => None,
        }
    }
    pub fn sum(&self) -> f64 {
        self.vals.iter().sum()
    }
}

/// Read the (parsed, normalised) component list of the library as model lines.
pub fn lines_from_components(c: &Components) -> Vec<MLine> {
    c.data
        .iter()
        .map(|e| {
            let w = |v: &Vec<f32>| v.iter().map(|x| *x as f64).collect::<Vec<f64>>();
            match e {
                Energy::Used(u) => MLine {
                    id: u.id,
                    kind: MKind::Used { srv: Srv::from_lib(u.service), car: Car::from_lib(u.carrier) },
                    vals: w(&u.values),
                    comment: u.comment.clone(),
                },
                Energy::Prod(p) => MLine {
                    id: p.id,
                    kind: MKind::Prod { src: Src::from_lib(p.source) },
                    vals: w(&p.values),
                    comment: p.comment.clone(),
                },
                Energy::Aux(a) => MLine {
                    id: a.id,
                    kind: MKind::Aux { srv: Srv::from_lib(a.service) },
                    vals: w(&a.values),
                    comment: a.comment.clone(),
                },
                Energy::Out(o) => MLine {
                    id: o.id,
                    kind: MKind::Out { srv: Srv::from_lib(o.service) },
                    vals: w(&o.values),
                    comment: o.comment.clone(),
                },
            }
        })
        .collect()
}

// ---------------------------------------------------------------------------------------------
// factor table

pub type FKey = (Car, FSrc, FDest, FStep);

#[derive(Clone, Debug, Default)]
pub struct FTable {
    pub rows: Vec<(FKey, [f64; 3])>,
}

impl FTable {
    pub fn from_factors(f: &Factors) -> FTable {
        FTable {
            rows: f
                .wdata
                .iter()
                .map(|x| {
                    (
                        (
                            Car::from_lib(x.carrier),
                            FSrc::from_lib(x.source),
                            FDest::from_lib(x.dest),
                            FStep::from_lib(x.step),
                        ),
                        [x.ren as f64, x.nren as f64, x.co2 as f64],
                    )
                })
                .collect(),
        }
    }
    /// first line matching the key
    pub fn find(&self, car: Car, src: FSrc, dest: FDest, step: FStep) -> Result<[f64; 3], MErr> {
        self.rows
            .iter()
            .find(|(k, _)| *k == (car, src, dest, step))
            .map(|(_, v)| *v)
            .ok_or(MErr::MissingFactor((car, src, dest, step)))
    }
    pub fn max_abs(&self, car: Car) -> f64 {
        self.rows
            .iter()
            .filter(|(k, _)| k.0 == car)
            .map(|(_, v)| v[0].abs().max(v[1].abs()).max(v[2].abs()))
            .fold(0.0, f64::max)
    }
}

#[derive(Clone, Debug, PartialEq)]
pub enum MErr {
    MissingFactor(FKey),
    CogenWithoutInput,
    Area,
}

fn add3(a: [f64; 3], b: [f64; 3]) -> [f64; 3] {
    [a[0] + b[0], a[1] + b[1], a[2] + b[2]]
}
fn sub3(a: [f64; 3], b: [f64; 3]) -> [f64; 3] {
    [a[0] - b[0], a[1] - b[1], a[2] - b[2]]
}
fn mul3(a: [f64; 3], k: f64) -> [f64; 3] {
    [a[0] * k, a[1] * k, a[2] * k]
}
const Z3: [f64; 3] = [0.0; 3];

#[derive(Clone, Debug, Default)]
pub struct MWe {
    pub a: [f64; 3],
    pub b: [f64; 3],
    pub del: [f64; 3],
    pub del_grid: [f64; 3],
    pub del_onst: [f64; 3],
    pub del_cgn: [f64; 3],
    pub exp: [f64; 3],
    pub exp_a: [f64; 3],
    pub exp_nepus_a: [f64; 3],
    pub exp_grid_a: [f64; 3],
    pub exp_ab: [f64; 3],
    pub exp_nepus_ab: [f64; 3],
    pub exp_grid_ab: [f64; 3],
    pub a_by_srv: BTreeMap<Srv, [f64; 3]>,
    pub b_by_srv: BTreeMap<Srv, [f64; 3]>,
}

#[derive(Clone, Debug, Default)]
pub struct MCarrier {
    pub n: usize,
    pub f_match: Vec<f64>,
    pub epus_t: Vec<f64>,
    pub epus_by_srv_t: BTreeMap<Srv, Vec<f64>>,
    pub nepus_t: Vec<f64>,
    pub cgnus_t: Vec<f64>,
    pub pr_t: Vec<f64>,
    pub pr_by_src_t: BTreeMap<Src, Vec<f64>>,
    pub u_t: Vec<f64>,
    pub u_by_src_t: BTreeMap<Src, Vec<f64>>,
    pub u_by_srv_by_src_t: BTreeMap<Src, BTreeMap<Srv, Vec<f64>>>,
    pub exp_t: Vec<f64>,
    pub exp_grid_t: Vec<f64>,
    pub exp_nepus_t: Vec<f64>,
    pub exp_by_src_t: BTreeMap<Src, Vec<f64>>,
    pub del_grid_t: Vec<f64>,
    pub del_onst_t: Vec<f64>,
    pub we: MWe,
    /// Σ|inputs| of the carrier (tolerance scale, energy)
    pub s_energy: f64,
    /// tolerance scale for weighted quantities
    pub s_weighted: f64,
}

fn sum(v: &[f64]) -> f64 {
    v.iter().sum()
}

impl MCarrier {
    pub fn epus_an(&self) -> f64 {
        sum(&self.epus_t)
    }
    pub fn nepus_an(&self) -> f64 {
        sum(&self.nepus_t)
    }
    pub fn cgnus_an(&self) -> f64 {
        sum(&self.cgnus_t)
    }
    pub fn pr_an(&self) -> f64 {
        sum(&self.pr_t)
    }
    pub fn u_an(&self) -> f64 {
        sum(&self.u_t)
    }
    pub fn exp_an(&self) -> f64 {
        sum(&self.exp_nepus_t) + sum(&self.exp_grid_t)
    }
    pub fn del_grid_an(&self) -> f64 {
        sum(&self.del_grid_t)
    }
    pub fn del_onst_an(&self) -> f64 {
        sum(&self.del_onst_t)
    }
    pub fn del_an(&self) -> f64 {
        self.del_grid_an() + self.del_onst_an() + self.cgnus_an()
    }
}

#[derive(Clone, Debug, Default)]
pub struct MResult {
    pub n: usize,
    pub k_exp: f64,
    pub area: f64,
    pub carriers: BTreeMap<Car, MCarrier>,
    pub needs: BTreeMap<Srv, f64>,
    pub a: [f64; 3],
    pub b: [f64; 3],
    pub del: [f64; 3],
    pub exp_a: [f64; 3],
    pub exp: [f64; 3],
    pub rer: f64,
    /// derived factor of cogenerated electricity (step A), when there is cogeneration
    pub f_cgn_a: Option<[f64; 3]>,
    pub s_energy: f64,
    pub s_weighted: f64,
}

/// Load matching factor, formula (32) / table B.32 with k = n = 1.
pub fn f_match(pr: f64, us: f64, load_matching: bool) -> f64 {
    if !load_matching || us <= 0.0 || pr <= 0.0 {
        1.0
    } else {
        let x = pr / us;
        (x + 1.0 / x - 1.0) / (x + 1.0 / x)
    }
}

/// Derived factors for cogenerated electricity, appended to the table (documented assumption:
/// step A factor = weighted cogeneration input / cogenerated electricity; step B = grid factor).
pub fn add_cogen_factors(lines: &[MLine], ft: &mut FTable) -> Result<Option<[f64; 3]>, MErr> {
    let mut chp = 0.0;
    let mut has_chp = false;
    let mut fuel_in: BTreeMap<Car, f64> = BTreeMap::new();
    for l in lines {
        match &l.kind {
            MKind::Prod { src: Src::EL_COGEN } => {
                has_chp = true;
                chp += l.sum();
            }
            MKind::Used { srv: Srv::COGEN, car } => {
                *fuel_in.entry(*car).or_default() += l.sum();
            }
            _ => {}
        }
    }
    if !has_chp {
        return Ok(None);
    }
    if fuel_in.is_empty() {
        return Err(MErr::CogenWithoutInput);
    }
    let mut f = Z3;
    for (car, e_in) in &fuel_in {
        let fp = ft.find(*car, FSrc::RED, FDest::SUMINISTRO, FStep::A)?;
        let ratio = if chp > 0.0 { e_in / chp } else { 0.0 };
        f = add3(f, mul3(fp, ratio));
    }
    let grid = ft.find(Car::ELECTRICIDAD, FSrc::RED, FDest::SUMINISTRO, FStep::A)?;
    let e = Car::ELECTRICIDAD;
    ft.rows.push(((e, FSrc::COGEN, FDest::SUMINISTRO, FStep::A), f));
    ft.rows.push(((e, FSrc::COGEN, FDest::A_NEPB, FStep::A), f));
    ft.rows.push(((e, FSrc::COGEN, FDest::A_RED, FStep::A), f));
    ft.rows.push(((e, FSrc::COGEN, FDest::A_NEPB, FStep::B), grid));
    ft.rows.push(((e, FSrc::COGEN, FDest::A_RED, FStep::B), grid));
    Ok(Some(f))
}

/// Final-energy part of the balance of one carrier (no factors involved).
pub fn carrier_flows(car: Car, lines: &[MLine], n: usize, load_matching: bool) -> MCarrier {
    let mut m = MCarrier { n, ..Default::default() };
    m.epus_t = vec![0.0; n];
    m.nepus_t = vec![0.0; n];
    m.cgnus_t = vec![0.0; n];
    m.pr_t = vec![0.0; n];
    for l in lines.iter().filter(|l| l.carrier() == Some(car)) {
        m.s_energy += l.vals.iter().map(|v| v.abs()).sum::<f64>();
        match &l.kind {
            MKind::Prod { src } => {
                let e = m.pr_by_src_t.entry(*src).or_insert_with(|| vec![0.0; n]);
                for t in 0..n {
                    e[t] += l.vals[t];
                    m.pr_t[t] += l.vals[t];
                }
            }
            MKind::Used { srv, .. } | MKind::Aux { srv } if srv.is_epb() => {
                let e = m.epus_by_srv_t.entry(*srv).or_insert_with(|| vec![0.0; n]);
                for t in 0..n {
                    e[t] += l.vals[t];
                    m.epus_t[t] += l.vals[t];
                }
            }
            MKind::Used { srv: Srv::COGEN, .. } => {
                for t in 0..n {
                    m.cgnus_t[t] += l.vals[t];
                }
            }
            MKind::Used { .. } | MKind::Aux { .. } => {
                for t in 0..n {
                    m.nepus_t[t] += l.vals[t];
                }
            }
            MKind::Out { .. } => {}
        }
    }
    m.f_match = (0..n).map(|t| f_match(m.pr_t[t], m.epus_t[t], load_matching)).collect();
    m.u_t = vec![0.0; n];
    let priorities = car == Car::ELECTRICIDAD
        && m.pr_by_src_t.contains_key(&Src::EL_INSITU)
        && m.pr_by_src_t.contains_key(&Src::EL_COGEN);
    if priorities {
        // (9)-(12): on-site electricity first, cogenerated electricity on the remaining use
        let pv = m.pr_by_src_t[&Src::EL_INSITU].clone();
        let chp = m.pr_by_src_t[&Src::EL_COGEN].clone();
        let mut upv = vec![0.0; n];
        let mut uchp = vec![0.0; n];
        for t in 0..n {
            let a = pv[t].min(m.epus_t[t]);
            let left = m.epus_t[t] - a;
            let b = chp[t].min(left);
            upv[t] = a * m.f_match[t];
            uchp[t] = b * m.f_match[t];
            m.u_t[t] = upv[t] + uchp[t];
        }
        m.u_by_src_t.insert(Src::EL_INSITU, upv);
        m.u_by_src_t.insert(Src::EL_COGEN, uchp);
    } else {
        // (13)(14): proportional to each source's share of the production of the step
        for t in 0..n {
            m.u_t[t] = m.f_match[t] * m.epus_t[t].min(m.pr_t[t]);
        }
        for (src, pj) in &m.pr_by_src_t {
            let v: Vec<f64> = (0..n)
                .map(|t| if m.pr_t[t] > 0.0 { m.u_t[t] * pj[t] / m.pr_t[t] } else { 0.0 })
                .collect();
            m.u_by_src_t.insert(*src, v);
        }
    }
    // share of each service in the use of the step -> used production by service and source
    for (src, uj) in &m.u_by_src_t {
        let mut by_srv = BTreeMap::new();
        for (srv, us) in &m.epus_by_srv_t {
            let v: Vec<f64> = (0..n)
                .map(|t| if m.epus_t[t] > 0.0 { uj[t] * us[t] / m.epus_t[t] } else { 0.0 })
                .collect();
            by_srv.insert(*srv, v);
        }
        m.u_by_srv_by_src_t.insert(*src, by_srv);
    }
    m.exp_t = (0..n).map(|t| m.pr_t[t] - m.u_t[t]).collect();
    m.exp_nepus_t = (0..n).map(|t| m.exp_t[t].min(m.nepus_t[t])).collect();
    m.exp_grid_t = (0..n).map(|t| m.exp_t[t] - m.exp_nepus_t[t]).collect();
    m.del_grid_t = (0..n).map(|t| m.epus_t[t] - m.u_t[t]).collect();
    m.del_onst_t = vec![0.0; n];
    for (src, pj) in &m.pr_by_src_t {
        if src.is_insitu() {
            for t in 0..n {
                m.del_onst_t[t] += pj[t];
            }
        }
        let uj = &m.u_by_src_t[src];
        m.exp_by_src_t.insert(*src, (0..n).map(|t| pj[t] - uj[t]).collect());
    }
    m
}

/// Weighted part for one carrier.
pub fn carrier_weighted(car: Car, m: &mut MCarrier, ft: &FTable, k_exp: f64) -> Result<(), MErr> {
    let f_grid = ft.find(car, FSrc::RED, FDest::SUMINISTRO, FStep::A)?;
    let mut w = MWe::default();
    w.del_grid = mul3(f_grid, m.del_grid_an());
    w.del_cgn = if m.cgnus_an() == 0.0 { Z3 } else { mul3(f_grid, m.cgnus_an()) };
    w.del_onst = if m.del_onst_an() == 0.0 {
        Z3
    } else {
        mul3(ft.find(car, FSrc::INSITU, FDest::SUMINISTRO, FStep::A)?, m.del_onst_an())
    };
    w.del = add3(add3(w.del_grid, w.del_onst), w.del_cgn);
    let exp_an = m.exp_an();
    let exp_nepus_an = sum(&m.exp_nepus_t);
    let exp_grid_an = sum(&m.exp_grid_t);
    if exp_an != 0.0 {
        let favg = |dest: FDest, step: FStep| -> Result<[f64; 3], MErr> {
            let mut r = Z3;
            for (src, ej) in &m.exp_by_src_t {
                let f = ft.find(car, fsrc_of(*src), dest, step)?;
                r = add3(r, mul3(f, sum(ej) / exp_an));
            }
            Ok(r)
        };
        let fa_nepb = if exp_nepus_an == 0.0 { Z3 } else { favg(FDest::A_NEPB, FStep::A)? };
        let fa_grid = if exp_grid_an == 0.0 { Z3 } else { favg(FDest::A_RED, FStep::A)? };
        w.exp_nepus_a = mul3(fa_nepb, exp_nepus_an);
        w.exp_grid_a = mul3(fa_grid, exp_grid_an);
        w.exp_a = add3(w.exp_nepus_a, w.exp_grid_a);
        let fb_nepb = if exp_nepus_an == 0.0 { Z3 } else { favg(FDest::A_NEPB, FStep::B)? };
        let fb_grid = if exp_grid_an == 0.0 { Z3 } else { favg(FDest::A_RED, FStep::B)? };
        w.exp_nepus_ab = mul3(sub3(fb_nepb, fa_nepb), exp_nepus_an);
        w.exp_grid_ab = mul3(sub3(fb_grid, fa_grid), exp_grid_an);
        w.exp_ab = add3(w.exp_nepus_ab, w.exp_grid_ab);
        w.exp = add3(w.exp_a, mul3(w.exp_ab, k_exp));
    }
    w.a = sub3(w.del, w.exp_a);
    w.b = sub3(w.del, w.exp);
    let epus_an = m.epus_an();
    for (srv, us) in &m.epus_by_srv_t {
        let f = if epus_an > 0.0 { sum(us) / epus_an } else { 0.0 };
        w.a_by_srv.insert(*srv, mul3(w.a, f));
        w.b_by_srv.insert(*srv, mul3(w.b, f));
    }
    m.we = w;
    Ok(())
}

/// carriers that get a balance: those of the use, auxiliary and production lines
pub fn carriers_of(lines: &[MLine]) -> Vec<Car> {
    let mut v: Vec<Car> = lines.iter().filter_map(|l| l.carrier()).collect();
    v.sort();
    v.dedup();
    v
}

pub fn evaluate(
    lines: &[MLine],
    n: usize,
    needs: &BTreeMap<Srv, f64>,
    ft0: &FTable,
    k_exp: f64,
    area: f64,
    load_matching: bool,
) -> Result<MResult, MErr> {
    if area < 1e-3 {
        return Err(MErr::Area);
    }
    let mut ft = ft0.clone();
    let f_cgn_a = add_cogen_factors(lines, &mut ft)?;
    let mut res = MResult { n, k_exp, area, needs: needs.clone(), f_cgn_a, ..Default::default() };
    // weighted cogeneration input (tolerance scale of the electricity carrier)
    let mut w_cgn_in = 0.0;
    for l in lines {
        if let MKind::Used { srv: Srv::COGEN, car } = &l.kind {
            w_cgn_in += l.vals.iter().map(|v| v.abs()).sum::<f64>() * ft.max_abs(*car).max(1.0);
        }
    }
    for car in carriers_of(lines) {
        let mut m = carrier_flows(car, lines, n, load_matching);
        carrier_weighted(car, &mut m, &ft, k_exp)?;
        m.s_weighted = m.s_energy * ft.max_abs(car).max(1.0)
            + if car == Car::ELECTRICIDAD { w_cgn_in } else { 0.0 };
        res.a = add3(res.a, m.we.a);
        res.b = add3(res.b, m.we.b);
        res.del = add3(res.del, m.we.del);
        res.exp_a = add3(res.exp_a, m.we.exp_a);
        res.exp = add3(res.exp, m.we.exp);
        res.s_energy += m.s_energy;
        res.s_weighted += m.s_weighted;
        res.carriers.insert(car, m);
    }
    let tot = res.b[0] + res.b[1];
    res.rer = if tot == 0.0 { 0.0 } else { res.b[0] / tot };
    Ok(res)
}

// ---------------------------------------------------------------------------------------------
// flat view of the model result, same paths as `flat::flat`

impl MResult {
    pub fn flat(&self) -> Flat {
        let mut f = Flat::new();
        let mut tot_epus = 0.0;
        let mut tot_nepus = 0.0;
        let mut tot_cgnus = 0.0;
        let mut tot_prod = 0.0;
        let mut tot_del = 0.0;
        let mut tot_onst = 0.0;
        let mut tot_grid = 0.0;
        let mut tot_exp = 0.0;
        let mut tot_exp_grid = 0.0;
        let mut tot_exp_nepus = 0.0;
        let mut epus_by_srv: BTreeMap<Srv, f64> = BTreeMap::new();
        let mut a_by_srv: BTreeMap<Srv, [f64; 3]> = BTreeMap::new();
        let mut b_by_srv: BTreeMap<Srv, [f64; 3]> = BTreeMap::new();
        let mut by_src: BTreeMap<Src, f64> = BTreeMap::new();
        let mut epus_by_src: BTreeMap<Src, f64> = BTreeMap::new();
        let mut epus_by_srv_by_src: BTreeMap<(Src, Srv), f64> = BTreeMap::new();
        let scales: [(&str, f64, bool); 2] = [("bal", 1.0, false), ("m2", 1.0 / self.area, true)];
        for (car, m) in &self.carriers {
            let c = Some(*car);
            let p = format!("cr.{}.", car.name());
            put(&mut f, format!("{p}f_match"), m.f_match.clone(), EK::RatioVec, c, false, false);
            put(&mut f, format!("{p}used.epus_t"), m.epus_t.clone(), EK::StepVec, c, false, false);
            for (s, v) in &m.epus_by_srv_t {
                put(&mut f, format!("{p}used.epus_by_srv_t.{}", s.name()), v.clone(), EK::StepVec, c, false, false);
                put(&mut f, format!("{p}used.epus_by_srv_an.{}", s.name()), vec![sum(v)], EK::Energy, c, false, false);
                *epus_by_srv.entry(*s).or_default() += sum(v);
            }
            put(&mut f, format!("{p}used.epus_an"), vec![m.epus_an()], EK::Energy, c, false, false);
            put(&mut f, format!("{p}used.nepus_t"), m.nepus_t.clone(), EK::StepVec, c, false, false);
            put(&mut f, format!("{p}used.nepus_an"), vec![m.nepus_an()], EK::Energy, c, false, false);
            put(&mut f, format!("{p}used.cgnus_t"), m.cgnus_t.clone(), EK::StepVec, c, false, false);
            put(&mut f, format!("{p}used.cgnus_an"), vec![m.cgnus_an()], EK::Energy, c, false, false);
            put(&mut f, format!("{p}prod.t"), m.pr_t.clone(), EK::StepVec, c, false, false);
            put(&mut f, format!("{p}prod.an"), vec![m.pr_an()], EK::Energy, c, false, false);
            for (s, v) in &m.pr_by_src_t {
                put(&mut f, format!("{p}prod.by_src_t.{}", s.name()), v.clone(), EK::StepVec, c, false, false);
                put(&mut f, format!("{p}prod.by_src_an.{}", s.name()), vec![sum(v)], EK::Energy, c, false, false);
                *by_src.entry(*s).or_default() += sum(v);
            }
            put(&mut f, format!("{p}prod.epus_t"), m.u_t.clone(), EK::StepVec, c, false, false);
            put(&mut f, format!("{p}prod.epus_an"), vec![m.u_an()], EK::Energy, c, false, false);
            for (s, v) in &m.u_by_src_t {
                put(&mut f, format!("{p}prod.epus_by_src_t.{}", s.name()), v.clone(), EK::StepVec, c, false, false);
                put(&mut f, format!("{p}prod.epus_by_src_an.{}", s.name()), vec![sum(v)], EK::Energy, c, false, false);
                *epus_by_src.entry(*s).or_default() += sum(v);
            }
            for (s, mm) in &m.u_by_srv_by_src_t {
                // the library creates the by-source entry even when there is no EPB service
                for (sv, v) in mm {
                    put(&mut f, format!("{p}prod.epus_by_srv_by_src_t.{}.{}", s.name(), sv.name()), v.clone(), EK::StepVec, c, false, false);
                    put(&mut f, format!("{p}prod.epus_by_srv_by_src_an.{}.{}", s.name(), sv.name()), vec![sum(v)], EK::Energy, c, false, false);
                    *epus_by_srv_by_src.entry((*s, *sv)).or_default() += sum(v);
                }
            }
            put(&mut f, format!("{p}exp.t"), m.exp_t.clone(), EK::StepVec, c, false, false);
            put(&mut f, format!("{p}exp.an"), vec![m.exp_an()], EK::Energy, c, false, false);
            put(&mut f, format!("{p}exp.grid_t"), m.exp_grid_t.clone(), EK::StepVec, c, false, false);
            put(&mut f, format!("{p}exp.grid_an"), vec![sum(&m.exp_grid_t)], EK::Energy, c, false, false);
            put(&mut f, format!("{p}exp.nepus_t"), m.exp_nepus_t.clone(), EK::StepVec, c, false, false);
            put(&mut f, format!("{p}exp.nepus_an"), vec![sum(&m.exp_nepus_t)], EK::Energy, c, false, false);
            for (s, v) in &m.exp_by_src_t {
                put(&mut f, format!("{p}exp.by_src_t.{}", s.name()), v.clone(), EK::StepVec, c, false, false);
                put(&mut f, format!("{p}exp.by_src_an.{}", s.name()), vec![sum(v)], EK::Energy, c, false, false);
            }
            put(&mut f, format!("{p}del.an"), vec![m.del_an()], EK::Energy, c, false, false);
            put(&mut f, format!("{p}del.grid_t"), m.del_grid_t.clone(), EK::StepVec, c, false, false);
            put(&mut f, format!("{p}del.grid_an"), vec![m.del_grid_an()], EK::Energy, c, false, false);
            put(&mut f, format!("{p}del.onst_t"), m.del_onst_t.clone(), EK::StepVec, c, false, false);
            put(&mut f, format!("{p}del.onst_an"), vec![m.del_onst_an()], EK::Energy, c, false, false);
            put(&mut f, format!("{p}del.cgn_t"), m.cgnus_t.clone(), EK::StepVec, c, false, false);
            put(&mut f, format!("{p}del.cgn_an"), vec![m.cgnus_an()], EK::Energy, c, false, false);
            let w = &m.we;
            for (name, r) in [
                ("b", &w.b),
                ("a", &w.a),
                ("del", &w.del),
                ("del_grid", &w.del_grid),
                ("del_onst", &w.del_onst),
                ("del_cgn", &w.del_cgn),
                ("exp", &w.exp),
                ("exp_a", &w.exp_a),
                ("exp_nepus_a", &w.exp_nepus_a),
                ("exp_grid_a", &w.exp_grid_a),
                ("exp_nepus_ab", &w.exp_nepus_ab),
                ("exp_grid_ab", &w.exp_grid_ab),
                ("exp_ab", &w.exp_ab),
            ] {
                put(&mut f, format!("{p}we.{name}"), r.to_vec(), EK::Weighted, c, false, false);
            }
            for (s, r) in &w.b_by_srv {
                put(&mut f, format!("{p}we.b_by_srv.{}", s.name()), r.to_vec(), EK::Weighted, c, false, false);
                let e = b_by_srv.entry(*s).or_insert(Z3);
                *e = add3(*e, *r);
            }
            for (s, r) in &w.a_by_srv {
                put(&mut f, format!("{p}we.a_by_srv.{}", s.name()), r.to_vec(), EK::Weighted, c, false, false);
                let e = a_by_srv.entry(*s).or_insert(Z3);
                *e = add3(*e, *r);
            }
            tot_epus += m.epus_an();
            tot_nepus += m.nepus_an();
            tot_cgnus += m.cgnus_an();
            tot_prod += m.pr_an();
            tot_del += m.del_an();
            tot_onst += m.del_onst_an();
            tot_grid += m.del_grid_an();
            tot_exp += m.exp_an();
            tot_exp_grid += sum(&m.exp_grid_t);
            tot_exp_nepus += sum(&m.exp_nepus_t);
            for (pre, k, m2) in scales {
                put(&mut f, format!("{pre}.used.epus_by_cr.{}", car.name()), vec![m.epus_an() * k], EK::Energy, c, m2, true);
                put(&mut f, format!("{pre}.prod.by_cr.{}", car.name()), vec![m.pr_an() * k], EK::Energy, c, m2, true);
                put(&mut f, format!("{pre}.del.grid_by_cr.{}", car.name()), vec![m.del_grid_an() * k], EK::Energy, c, m2, true);
                for (s, v) in &m.epus_by_srv_t {
                    put(&mut f, format!("{pre}.used.epus_by_cr_by_srv.{}.{}", s.name(), car.name()), vec![sum(v) * k], EK::Energy, c, m2, false);
                }
            }
        }
        for (pre, k, m2) in scales {
            for (s, v) in &self.needs {
                put(&mut f, format!("{pre}.needs.{}", s.name()), vec![v * k], EK::Need, None, m2, false);
            }
            put(&mut f, format!("{pre}.used.nepus"), vec![tot_nepus * k], EK::Energy, None, m2, false);
            put(&mut f, format!("{pre}.used.epus"), vec![tot_epus * k], EK::Energy, None, m2, false);
            put(&mut f, format!("{pre}.used.cgnus"), vec![tot_cgnus * k], EK::Energy, None, m2, false);
            for (s, v) in &epus_by_srv {
                put(&mut f, format!("{pre}.used.epus_by_srv.{}", s.name()), vec![v * k], EK::Energy, None, m2, false);
            }
            put(&mut f, format!("{pre}.prod.an"), vec![tot_prod * k], EK::Energy, None, m2, false);
            for (s, v) in &by_src {
                put(&mut f, format!("{pre}.prod.by_src.{}", s.name()), vec![v * k], EK::Energy, Some(s.carrier()), m2, false);
            }
            for (s, v) in &epus_by_src {
                put(&mut f, format!("{pre}.prod.epus_by_src.{}", s.name()), vec![v * k], EK::Energy, Some(s.carrier()), m2, false);
            }
            for ((s, sv), v) in &epus_by_srv_by_src {
                put(&mut f, format!("{pre}.prod.epus_by_srv_by_src.{}.{}", s.name(), sv.name()), vec![v * k], EK::Energy, Some(s.carrier()), m2, false);
            }
            put(&mut f, format!("{pre}.del.an"), vec![tot_del * k], EK::Energy, None, m2, false);
            put(&mut f, format!("{pre}.del.onst"), vec![tot_onst * k], EK::Energy, None, m2, false);
            put(&mut f, format!("{pre}.del.grid"), vec![tot_grid * k], EK::Energy, None, m2, false);
            put(&mut f, format!("{pre}.exp.an"), vec![tot_exp * k], EK::Energy, None, m2, false);
            put(&mut f, format!("{pre}.exp.grid"), vec![tot_exp_grid * k], EK::Energy, None, m2, false);
            put(&mut f, format!("{pre}.exp.nepus"), vec![tot_exp_nepus * k], EK::Energy, None, m2, false);
            put(&mut f, format!("{pre}.we.a"), mul3(self.a, k).to_vec(), EK::Weighted, None, m2, false);
            put(&mut f, format!("{pre}.we.b"), mul3(self.b, k).to_vec(), EK::Weighted, None, m2, false);
            put(&mut f, format!("{pre}.we.del"), mul3(self.del, k).to_vec(), EK::Weighted, None, m2, false);
            put(&mut f, format!("{pre}.we.exp_a"), mul3(self.exp_a, k).to_vec(), EK::Weighted, None, m2, false);
            put(&mut f, format!("{pre}.we.exp"), mul3(self.exp, k).to_vec(), EK::Weighted, None, m2, false);
            for (s, r) in &a_by_srv {
                put(&mut f, format!("{pre}.we.a_by_srv.{}", s.name()), mul3(*r, k).to_vec(), EK::Weighted, None, m2, false);
            }
            for (s, r) in &b_by_srv {
                put(&mut f, format!("{pre}.we.b_by_srv.{}", s.name()), mul3(*r, k).to_vec(), EK::Weighted, None, m2, false);
            }
        }
        put(&mut f, "rer".into(), vec![self.rer], EK::Ratio, None, false, false);
        put(&mut f, "k_exp".into(), vec![self.k_exp], EK::Param, None, false, false);
        put(&mut f, "arearef".into(), vec![self.area], EK::Param, None, false, false);
        f
    }
}

pub fn needs_of(c: &Components) -> BTreeMap<Srv, f64> {
    let mut m = BTreeMap::new();
    if let Some(v) = &c.needs.ACS {
        m.insert(Srv::ACS, v.iter().map(|x| *x as f64).sum());
    }
    if let Some(v) = &c.needs.CAL {
        m.insert(Srv::CAL, v.iter().map(|x| *x as f64).sum());
    }
    if let Some(v) = &c.needs.REF {
        m.insert(Srv::REF, v.iter().map(|x| *x as f64).sum());
    }
    m
}
