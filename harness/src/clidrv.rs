//! Engine E3: runs /repo's `cteepbd` binary out of process in a fresh scratch directory, with full
//! capture of stdout / stderr and a watchdog.

use std::io::Read;
use std::path::{Path, PathBuf};
use std::process::{Command, Stdio};
use std::sync::atomic::{AtomicU64, Ordering};
use std::time::{Duration, Instant};

static COUNTER: AtomicU64 = AtomicU64::new(0);

pub fn cli_path() -> PathBuf {
    std::env::var("VERIF_CLI").map(PathBuf::from).unwrap_or_else(|_| PathBuf::from("/verif/.build/repo/debug/cteepbd"))
}

pub fn scratch_root() -> PathBuf {
    std::env::var("VERIF_SCRATCH").map(PathBuf::from).unwrap_or_else(|_| PathBuf::from("/verif/.build/tmp"))
}

#[derive(Debug, Clone)]
pub struct CliRun {
    pub status: Option<i32>,
    pub signal: Option<i32>,
    pub stdout: String,
    pub stderr: String,
    pub timed_out: bool,
    pub dir: PathBuf,
    pub wall_ms: u128,
}

impl CliRun {
    pub fn file(&self, name: &str) -> Option<String> {
        std::fs::read(self.dir.join(name)).ok().map(|b| String::from_utf8_lossy(&b).to_string())
    }
    pub fn exists(&self, name: &str) -> bool {
        self.dir.join(name).exists()
    }
    pub fn cleanup(&self) {
        let _ = std::fs::remove_dir_all(&self.dir);
    }
    pub fn summary(&self) -> String {
        format!(
            "status={:?} signal={:?} timed_out={} stderr=`{}`",
            self.status,
            self.signal,
            self.timed_out,
            self.stderr.chars().take(300).collect::<String>()
        )
    }
}

pub fn new_dir() -> PathBuf {
    let n = COUNTER.fetch_add(1, Ordering::SeqCst);
    let d = scratch_root().join(format!("run-{}-{}", std::process::id(), n));
    let _ = std::fs::create_dir_all(&d);
    d
}

/// the release-profile binary (panic = "abort", LTO), when the thorough tier of C16 built it
pub fn release_cli_path() -> Option<PathBuf> {
    std::env::var("VERIF_CLI_RELEASE").ok().map(PathBuf::from).filter(|p| p.exists())
}

/// Run the CLI with `args` in a fresh directory holding `files` (name, bytes).
pub fn run_cli(args: &[String], files: &[(String, Vec<u8>)], timeout: Duration) -> Result<CliRun, String> {
    run_bin(&cli_path(), args, files, timeout)
}

pub fn run_bin(bin: &Path, args: &[String], files: &[(String, Vec<u8>)], timeout: Duration) -> Result<CliRun, String> {
    let bin = bin.to_path_buf();
    if !bin.exists() {
        return Err(format!("CLI binary {} not found (run ./setup.sh or ./check.sh)", bin.display()));
    }
    let dir = new_dir();
    for (name, content) in files {
        std::fs::write(dir.join(name), content).map_err(|e| format!("cannot write {}: {}", name, e))?;
    }
    let t0 = Instant::now();
    let mut child = Command::new(&bin)
        .args(args)
        .current_dir(&dir)
        .stdin(Stdio::null())
        .stdout(Stdio::piped())
        .stderr(Stdio::piped())
        .env("RUST_BACKTRACE", "0")
        .spawn()
        .map_err(|e| format!("cannot spawn {}: {}", bin.display(), e))?;
    let mut so = child.stdout.take().unwrap();
    let mut se = child.stderr.take().unwrap();
    let h1 = std::thread::spawn(move || {
        let mut b = Vec::new();
        let _ = so.read_to_end(&mut b);
        b
    });
    let h2 = std::thread::spawn(move || {
        let mut b = Vec::new();
        let _ = se.read_to_end(&mut b);
        b
    });
    let mut timed_out = false;
    let status = loop {
        match child.try_wait() {
            Ok(Some(s)) => break Some(s),
            Ok(None) => {
                if t0.elapsed() > timeout {
                    timed_out = true;
                    let _ = child.kill();
                    let _ = child.wait();
                    break None;
                }
                std::thread::sleep(Duration::from_millis(1));
            }
            Err(e) => return Err(format!("wait failed: {}", e)),
        }
    };
    let stdout = String::from_utf8_lossy(&h1.join().unwrap_or_default()).to_string();
    let stderr = String::from_utf8_lossy(&h2.join().unwrap_or_default()).to_string();
    #[cfg(unix)]
    let signal = {
        use std::os::unix::process::ExitStatusExt;
        status.and_then(|s| s.signal())
    };
    #[cfg(not(unix))]
    let signal = None;
    Ok(CliRun { status: status.and_then(|s| s.code()), signal, stdout, stderr, timed_out, dir, wall_ms: t0.elapsed().as_millis() })
}

/// a hang is re-run once alone before it is believed (machine load cannot fake a hang)
pub fn run_cli_checked(args: &[String], files: &[(String, Vec<u8>)]) -> Result<CliRun, String> {
    let r = run_cli(args, files, Duration::from_secs(20))?;
    if r.timed_out {
        r.cleanup();
        return run_cli(args, files, Duration::from_secs(60));
    }
    Ok(r)
}

pub fn exists(p: &Path) -> bool {
    p.exists()
}

/// numbers in a line, in order of appearance
pub fn numbers_in(line: &str) -> Vec<f64> {
    let mut out = vec![];
    let mut cur = String::new();
    let chars: Vec<char> = line.chars().collect();
    let mut i = 0;
    while i < chars.len() {
        let c = chars[i];
        let starts = c.is_ascii_digit() || ((c == '-' || c == '.') && i + 1 < chars.len() && chars[i + 1].is_ascii_digit() && (i == 0 || !chars[i - 1].is_ascii_alphanumeric()));
        if cur.is_empty() && starts {
            cur.push(c);
        } else if !cur.is_empty() && (c.is_ascii_digit() || c == '.' || ((c == 'e' || c == 'E') && i + 1 < chars.len() && (chars[i + 1].is_ascii_digit() || chars[i + 1] == '-'))) {
            cur.push(c);
        } else if !cur.is_empty() && c == '-' && matches!(cur.chars().last(), Some('e') | Some('E')) {
            cur.push(c);
        } else if !cur.is_empty() {
            if let Ok(v) = cur.trim_end_matches('.').parse::<f64>() {
                out.push(v);
            }
            cur.clear();
            if starts {
                cur.push(c);
            }
        }
        i += 1;
    }
    if !cur.is_empty() {
        if let Ok(v) = cur.trim_end_matches('.').parse::<f64>() {
            out.push(v);
        }
    }
    out
}
