//! Engine E4: coverage-guided fuzzing of the *semantic* checks.
//!
//! libFuzzer's bytes are fed to the property's own proptest strategy as its random stream
//! (proptest's `PassThrough` RNG; zeros once the bytes run out), so the fuzzer mutates structured,
//! sound cases - the same grammar the random search uses - and the case then goes through the
//! property's plain check function with its full oracle. A failure aborts the process (libFuzzer
//! saves the bytes); `vcheck decode` turns the bytes back into the JSON replay file, which is the
//! reproducible unit, and re-runs it without libFuzzer or proptest.
//!
//! Used by the thorough tier only (`campaign`), after the random search, for the in-process
//! properties; C16 has byte-level targets of its own and C19 is one program run per case.

use std::any::Any;
use std::cell::RefCell;
use std::collections::{BTreeMap, BTreeSet};
use std::process::Command;

use proptest::strategy::{BoxedStrategy, Strategy, ValueTree};
use proptest::test_runner::{Config, RngAlgorithm, TestRng, TestRunner};
use serde_json::{json, Value};

use crate::engine::*;

pub enum FuzzVerdict {
    /// the bytes do not decode into a case (strategy rejected them)
    NoCase,
    Pass,
    /// failure text and the JSON replay document of the failing case
    Fail(String, Value),
}

thread_local! {
    static STRATEGY: RefCell<Option<Box<dyn Any>>> = RefCell::new(None);
    static ACTIVE_KF: RefCell<Option<&'static BTreeSet<String>>> = RefCell::new(None);
}

/// bytes -> case, through the property's strategy (quick-tier sizes: many small cases)
pub fn case_from_bytes<P: Prop>(data: &[u8]) -> Option<P::Case> {
    STRATEGY.with(|s| {
        let mut s = s.borrow_mut();
        if s.is_none() {
            *s = Some(Box::new(P::strategy(Tier::Quick)));
        }
        let strat = s.as_ref().unwrap().downcast_ref::<BoxedStrategy<P::Case>>().expect("one property per process");
        // (built against /verif/vendor/proptest, whose PassThrough stream never runs dry; with the
        // registry crate - the `vcheck decode` binary - the same bytes are followed by zeros, so the
        // decoded JSON case, not the bytes, is the reproducible unit: `campaign` decodes in the fuzz
        // build itself, see below)
        let rng = TestRng::from_seed(RngAlgorithm::PassThrough, data);
        let mut runner = TestRunner::new_with_rng(Config { failure_persistence: None, max_local_rejects: 64, max_global_rejects: 64, ..Config::default() }, rng);
        strat.new_tree(&mut runner).ok().map(|t| t.current())
    })
}

fn active_kf<P: Prop>() -> &'static BTreeSet<String> {
    ACTIVE_KF.with(|a| {
        let mut a = a.borrow_mut();
        if a.is_none() {
            let set: BTreeSet<String> = load_known_findings(P::ID).iter().map(|k| k.id.clone()).collect();
            *a = Some(Box::leak(Box::new(set)));
        }
        a.unwrap()
    })
}

pub fn fuzz_bytes<P: Prop>(data: &[u8]) -> FuzzVerdict {
    let case = match case_from_bytes::<P>(data) {
        Some(c) => c,
        None => return FuzzVerdict::NoCase,
    };
    let mut ctx = Ctx::new(active_kf::<P>());
    let why = match catch(|| P::check(&case, &mut ctx)) {
        Ok(Ok(())) => return FuzzVerdict::Pass,
        Ok(Err(f)) if f.sub == "harness" => return FuzzVerdict::Pass,
        Ok(Err(f)) => f.to_string(),
        Err(p) => format!("[panic] {}", p),
    };
    let doc = json!({"property": P::ID, "seed": 0, "tier": "thorough", "engine": "libFuzzer over the property's strategy (semfuzz)",
        "failure": why, "case": serde_json::to_value(&case).unwrap_or(Value::Null), "readable": P::describe(&case)});
    FuzzVerdict::Fail(why, doc)
}

/// entry point of the fuzz target: the property comes from VERIF_FUZZ_PROP
pub fn fuzz_entry(data: &[u8]) {
    use std::sync::OnceLock;
    static PROP: OnceLock<String> = OnceLock::new();
    let id = PROP.get_or_init(|| {
        install_panic_hook();
        std::env::var("VERIF_FUZZ_PROP").unwrap_or_else(|_| "C02".to_string())
    });
    match crate::registry::fuzz(id, data) {
        Some(FuzzVerdict::Fail(why, doc)) => {
            eprintln!("semantic fuzzing: property {} fails: {}", id, why);
            // the decoded case is the reproducible unit (the bytes only mean something to this build)
            if let Ok(dir) = std::env::var("VERIF_FUZZ_REPLAY_DIR") {
                let mut h = 0xcbf29ce484222325u64;
                for b in data {
                    h = (h ^ *b as u64).wrapping_mul(0x100000001b3);
                }
                let _ = std::fs::create_dir_all(&dir);
                let _ = std::fs::write(format!("{}/{:016x}.json", dir, h), serde_json::to_string_pretty(&doc).unwrap_or_default());
            }
            std::process::abort();
        }
        Some(_) => {}
        None => {
            eprintln!("semantic fuzzing: unknown property {}", id);
            std::process::exit(2);
        }
    }
}

fn splitmix(x: &mut u64) -> u64 {
    *x = x.wrapping_add(0x9E3779B97F4A7C15);
    let mut z = *x;
    z = (z ^ (z >> 30)).wrapping_mul(0xBF58476D1CE4E5B9);
    z = (z ^ (z >> 27)).wrapping_mul(0x94D049BB133111EB);
    z ^ (z >> 31)
}

/// The thorough-tier campaign for one property: build the target, seed a fresh corpus with
/// pseudo-random streams derived from `seed`, run libFuzzer in fork mode for VERIF_SEMFUZZ_SECS
/// (default 60 s; 0 disables), re-confirm every crash in this process.
/// Anything that keeps the campaign from running (no nightly toolchain, build failure) is recorded
/// as inconclusive in the evidence and never reported as a violation.
pub fn campaign<P: Prop>(seed: u64, ev: &mut BTreeMap<String, Value>) -> Result<(), (Failure, Value)> {
    let secs: u64 = std::env::var("VERIF_SEMFUZZ_SECS").ok().and_then(|s| s.parse().ok()).unwrap_or(60);
    let key = "coverage_guided_fuzzing_of_the_check".to_string();
    if secs == 0 {
        ev.insert(key, json!({"status": "disabled (VERIF_SEMFUZZ_SECS=0)"}));
        return Ok(());
    }
    let build_dir = "/verif/.build/fuzz-sem";
    let note = |ev: &mut BTreeMap<String, Value>, s: String| {
        ev.insert("coverage_guided_fuzzing_of_the_check".to_string(), json!({"status": "inconclusive", "why": s}));
    };
    let b = Command::new("cargo")
        .args(["+nightly", "fuzz", "build", "-s", "none", "--fuzz-dir", "/verif/fuzz", "--target-dir", build_dir, "fz_prop"])
        .env("CARGO_NET_OFFLINE", "true")
        .current_dir("/verif/fuzz")
        .output();
    match b {
        Ok(o) if o.status.success() => {}
        Ok(o) => {
            note(ev, format!("cargo +nightly fuzz build failed: {}", String::from_utf8_lossy(&o.stderr).chars().rev().take(400).collect::<String>().chars().rev().collect::<String>()));
            return Ok(());
        }
        Err(e) => {
            note(ev, format!("cargo +nightly fuzz not runnable: {}", e));
            return Ok(());
        }
    }
    let work = format!("/verif/.build/fuzz-work/fz_prop-{}", P::ID);
    let _ = std::fs::remove_dir_all(&work);
    let _ = std::fs::create_dir_all(format!("{}/corpus", work));
    let _ = std::fs::create_dir_all(format!("{}/artifacts", work));
    // seed corpus: 24 pseudo-random streams (libFuzzer ramps the length slowly from an empty corpus)
    let mut st = seed ^ 0x5EED_F00D_0000_0000;
    for b in P::ID.bytes() {
        st = st.wrapping_mul(31).wrapping_add(b as u64);
    }
    for i in 0..24 {
        let len = [512usize, 1024, 2048, 4096][i % 4];
        let mut buf = Vec::with_capacity(len);
        while buf.len() < len {
            buf.extend_from_slice(&splitmix(&mut st).to_le_bytes());
        }
        let _ = std::fs::write(format!("{}/corpus/seed-{:02}", work, i), &buf);
    }
    let bin = format!("{}/x86_64-unknown-linux-gnu/release/fz_prop", build_dir);
    let out = Command::new(&bin)
        .args([
            format!("{}/corpus", work),
            format!("-seed={}", (seed % 0xFFFF_FFFF) + 1),
            format!("-max_total_time={}", secs),
            "-max_len=8192".into(),
            "-len_control=0".into(),
            "-fork=16".into(),
            "-ignore_crashes=0".into(),
            "-timeout=60".into(),
            "-rss_limit_mb=4096".into(),
            format!("-artifact_prefix={}/artifacts/", work),
        ])
        .env("VERIF_FUZZ_PROP", P::ID)
        .env("VERIF_FUZZ_REPLAY_DIR", format!("{}/replays", work))
        .current_dir(&work)
        .output();
    let out = match out {
        Ok(o) => o,
        Err(e) => {
            note(ev, format!("cannot start {}: {}", bin, e));
            return Ok(());
        }
    };
    let log = String::from_utf8_lossy(&out.stderr).to_string();
    let execs = log.lines().rev().find_map(|l| l.strip_prefix('#').and_then(|r| r.split(':').next()).and_then(|n| n.trim().parse::<u64>().ok())).unwrap_or(0);
    let cov = log.lines().rev().find_map(|l| l.split("cov: ").nth(1).and_then(|r| r.split_whitespace().next()).and_then(|n| n.parse::<u64>().ok())).unwrap_or(0);
    let corp = log.lines().rev().find_map(|l| l.split("corp: ").nth(1).and_then(|r| r.split_whitespace().next()).and_then(|n| n.parse::<u64>().ok())).unwrap_or(0);
    let mut arts: Vec<std::path::PathBuf> = std::fs::read_dir(format!("{}/artifacts", work)).map(|rd| rd.flatten().map(|e| e.path()).collect()).unwrap_or_default();
    arts.sort();
    let (mut confirmed, mut unconfirmed) = (0, 0);
    let mut failure: Option<(Failure, Value)> = None;
    let crashes = arts.iter().filter(|a| a.file_name().map(|s| s.to_string_lossy().starts_with("crash-")).unwrap_or(false)).count();
    // every failing case was written as a JSON replay document by the target itself: re-run each
    // through the plain check of this (unpatched) build
    let mut docs: Vec<std::path::PathBuf> = std::fs::read_dir(format!("{}/replays", work)).map(|rd| rd.flatten().map(|e| e.path()).collect()).unwrap_or_default();
    docs.sort();
    for d in &docs {
        match replay_one::<P>(d, active_kf::<P>()) {
            Ok(_) => unconfirmed += 1,
            Err((f, _)) if f.sub == "harness" => unconfirmed += 1,
            Err((f, case)) => {
                confirmed += 1;
                if failure.is_none() {
                    if let Some(case) = case {
                        failure = Some((
                            Failure::new(f.sub.clone(), format!("found by coverage-guided fuzzing, confirmed by the plain check: {}", f.msg)),
                            json!({"case": serde_json::to_value(&case).unwrap_or(Value::Null), "readable": P::describe(&case)}),
                        ));
                    }
                }
            }
        }
    }
    // a crash without a replay document (a signal, an out-of-memory kill, a timeout) cannot be
    // attributed to the property: inconclusive
    unconfirmed += crashes.saturating_sub(docs.len());
    ev.insert(
        key,
        json!({"engine": "libFuzzer (cargo-fuzz target fz_prop) driving the property's proptest strategy through the PassThrough RNG; oracle = the property's plain check",
               "executions": execs, "coverage_edges": cov, "corpus_entries": corp, "seconds": secs, "jobs": 16, "artifacts": arts.len(),
               "confirmed_by_the_plain_check": confirmed,
               "unconfirmed (slow input / out-of-memory / not reproducible: inconclusive)": unconfirmed}),
    );
    match failure {
        Some(f) => Err(f),
        None => Ok(()),
    }
}
