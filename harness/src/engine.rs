//! Engine E1: drives one property with proptest's `TestRunner` from a binary.
//!
//! * every random choice comes from proptest strategies (shrinking + replay work);
//! * a run is a pure function of (code, VERIF_SEED, tier): `WORKERS` is a constant and worker `i`
//!   gets the ChaCha seed `H(seed, property, i)`;
//! * statistics are counted until the first failure only (the closure is re-run while shrinking);
//! * panics inside a check are caught per case and become failures (sub-check `panic`);
//! * a shrunk failure is written as a replay file and reported as `VIOLATION`;
//! * known findings (from `/verif/known_findings.json`, never written here) excuse exactly the
//!   sub-assertions whose signature predicate matches, and are reported as `KNOWN-FINDING:` lines.

use std::cell::RefCell;
use std::collections::{BTreeMap, BTreeSet, HashSet};
use std::fmt::Debug;
use std::hash::{Hash, Hasher};
use std::panic::{catch_unwind, AssertUnwindSafe};
use std::path::{Path, PathBuf};
use std::sync::atomic::{AtomicBool, Ordering};
use std::sync::{Arc, Mutex};
use std::time::Instant;

use proptest::strategy::{BoxedStrategy, Strategy};
use proptest::test_runner::{
    Config, RngAlgorithm, TestCaseError, TestError, TestRng, TestRunner,
};
use serde::de::DeserializeOwned;
use serde::Serialize;
use serde_json::{json, Value};

pub const WORKERS: usize = 16;
pub const VERIF_DIR: &str = "/verif";

/// where evidence and replay files are written (default /verif; the sensitivity runner points it
/// to a scratch directory so that mutant runs never touch the committed evidence)
pub fn out_dir() -> PathBuf {
    std::env::var("VERIF_OUT").map(PathBuf::from).unwrap_or_else(|_| PathBuf::from(VERIF_DIR))
}

#[derive(Clone, Copy, Debug, PartialEq, Eq)]
pub enum Tier {
    Quick,
    Thorough,
}
impl Tier {
    pub fn name(self) -> &'static str {
        match self {
            Tier::Quick => "quick",
            Tier::Thorough => "thorough",
        }
    }
    pub fn pick<T>(self, q: T, t: T) -> T {
        match self {
            Tier::Quick => q,
            Tier::Thorough => t,
        }
    }
}

#[derive(Debug, Clone)]
pub struct Failure {
    pub sub: String,
    pub msg: String,
}
impl Failure {
    pub fn new(sub: impl Into<String>, msg: impl Into<String>) -> Failure {
        Failure { sub: sub.into(), msg: msg.into() }
    }
}
impl std::fmt::Display for Failure {
    fn fmt(&self, f: &mut std::fmt::Formatter<'_>) -> std::fmt::Result {
        write!(f, "[{}] {}", self.sub, self.msg)
    }
}

pub type CheckResult = Result<(), Failure>;

#[macro_export]
macro_rules! fail {
    ($sub:expr, $($arg:tt)*) => {
        return Err($crate::engine::Failure::new($sub, format!($($arg)*)))
    };
}

#[macro_export]
macro_rules! ensure {
    ($cond:expr, $sub:expr, $($arg:tt)*) => {
        if !($cond) {
            return Err($crate::engine::Failure::new($sub, format!($($arg)*)));
        }
    };
}

/// Per-case context: what the check tells the engine about the case.
pub struct Ctx<'a> {
    pub nontrivial: bool,
    pub labels: Vec<String>,
    pub skipped: Vec<String>,
    pub kf_hits: Vec<(String, String)>,
    pub counters: Vec<(String, u64)>,
    pub strict: bool,
    active_kf: &'a BTreeSet<String>,
}

impl<'a> Ctx<'a> {
    pub fn new(active_kf: &'a BTreeSet<String>) -> Ctx<'a> {
        Ctx {
            nontrivial: false,
            labels: vec![],
            skipped: vec![],
            kf_hits: vec![],
            counters: vec![],
            strict: false,
            active_kf,
        }
    }
    pub fn label(&mut self, l: impl Into<String>) {
        self.labels.push(l.into());
    }
    pub fn skip(&mut self, l: impl Into<String>) {
        self.skipped.push(l.into());
    }
    pub fn count(&mut self, l: impl Into<String>, n: u64) {
        self.counters.push((l.into(), n));
    }
    /// A sub-assertion failed and the signature predicate of known finding `id` matched.
    /// Returns true (and records the hit) when the finding is listed as `known`; otherwise the
    /// caller must report the failure.
    pub fn excuse(&mut self, id: &str, what: impl Into<String>) -> bool {
        if self.active_kf.contains(id) {
            self.kf_hits.push((id.to_string(), what.into()));
            true
        } else {
            false
        }
    }
}

pub trait Prop: 'static {
    type Case: Clone + Debug + Serialize + DeserializeOwned + Send + 'static;
    const ID: &'static str;
    /// how cases are generated and what makes one non-trivial
    fn rule() -> String;
    fn assumptions() -> Vec<String>;
    /// total generated cases for the tier (split over the workers)
    fn cases(tier: Tier) -> u32;
    fn strategy(tier: Tier) -> BoxedStrategy<Self::Case>;
    fn check(case: &Self::Case, ctx: &mut Ctx) -> CheckResult;
    /// human-readable form of a case (for evidence samples and replay files)
    fn describe(case: &Self::Case) -> Value;
    /// extra work after the generated cases (e.g. out-of-process CLI part); may add evidence keys
    /// Default: in the thorough tier, a coverage-guided fuzzing campaign over the property's own
    /// strategy and check (engine E4, `semfuzz`).
    fn extra(tier: Tier, seed: u64, ev: &mut BTreeMap<String, Value>) -> Result<(), (Failure, Value)>
    where
        Self: Sized,
    {
        if tier == Tier::Thorough {
            crate::semfuzz::campaign::<Self>(seed, ev)
        } else {
            Ok(())
        }
    }
}

// ---------------------------------------------------------------------------------------------
// panic capture

thread_local! {
    static LAST_PANIC: RefCell<Option<String>> = RefCell::new(None);
    static CAPTURING: std::cell::Cell<bool> = std::cell::Cell::new(false);
}
static HOOK_SET: AtomicBool = AtomicBool::new(false);

pub fn install_panic_hook() {
    if HOOK_SET.swap(true, Ordering::SeqCst) {
        return;
    }
    std::panic::set_hook(Box::new(|info| {
        let loc = info
            .location()
            .map(|l| format!("{}:{}", l.file(), l.line()))
            .unwrap_or_else(|| "?".into());
        let msg = if let Some(s) = info.payload().downcast_ref::<&str>() {
            s.to_string()
        } else if let Some(s) = info.payload().downcast_ref::<String>() {
            s.clone()
        } else {
            "<non-string panic>".to_string()
        };
        let mut short = msg;
        if short.len() > 300 {
            let mut cut = 300;
            while !short.is_char_boundary(cut) {
                cut -= 1;
            }
            short.truncate(cut);
        }
        if !CAPTURING.with(|c| c.get()) {
            // a panic outside a checked call is a harness defect: make it visible
            eprintln!("harness panic: {} at {}", short, loc);
        }
        LAST_PANIC.with(|p| *p.borrow_mut() = Some(format!("{} at {}", short, loc)));
    }));
}

/// Run `f` catching panics; `Err(description)` on panic.
pub fn catch<T>(f: impl FnOnce() -> T) -> Result<T, String> {
    install_panic_hook();
    LAST_PANIC.with(|p| *p.borrow_mut() = None);
    let was = CAPTURING.with(|c| c.replace(true));
    let r = catch_unwind(AssertUnwindSafe(f));
    CAPTURING.with(|c| c.set(was));
    match r {
        Ok(v) => Ok(v),
        Err(_) => Err(LAST_PANIC
            .with(|p| p.borrow_mut().take())
            .unwrap_or_else(|| "panic (no message)".into())),
    }
}

// ---------------------------------------------------------------------------------------------
// known findings

#[derive(Debug, Clone)]
pub struct KnownFinding {
    pub id: String,
    pub property: String,
    pub what: String,
    pub repro: Option<String>,
}

pub fn load_known_findings(property: &str) -> Vec<KnownFinding> {
    let path = Path::new(VERIF_DIR).join("known_findings.json");
    let txt = match std::fs::read_to_string(&path) {
        Ok(t) => t,
        Err(_) => return vec![],
    };
    let v: Value = match serde_json::from_str(&txt) {
        Ok(v) => v,
        Err(e) => {
            eprintln!("harness error: known_findings.json does not parse: {}", e);
            std::process::exit(2);
        }
    };
    let mut out = vec![];
    if let Some(arr) = v.get("findings").and_then(|a| a.as_array()) {
        for e in arr {
            if e.get("status").and_then(|s| s.as_str()) == Some("known")
                && e.get("property").and_then(|s| s.as_str()) == Some(property)
            {
                out.push(KnownFinding {
                    id: e.get("id").and_then(|s| s.as_str()).unwrap_or("").to_string(),
                    property: property.to_string(),
                    what: e.get("what").and_then(|s| s.as_str()).unwrap_or("").to_string(),
                    repro: e.get("repro").and_then(|s| s.as_str()).map(|s| s.to_string()),
                });
            }
        }
    }
    out
}

// ---------------------------------------------------------------------------------------------
// statistics

#[derive(Default)]
pub struct Stats {
    pub evaluations: u64,
    pub nontrivial: u64,
    pub distinct_nt: HashSet<u64>,
    pub labels: BTreeMap<String, u64>,
    pub skipped: BTreeMap<String, u64>,
    pub counters: BTreeMap<String, u64>,
    pub kf_hits: BTreeMap<String, (u64, String)>,
    pub samples: Vec<(usize, Value)>,
}

impl Stats {
    fn merge(&mut self, o: Stats) {
        self.evaluations += o.evaluations;
        self.nontrivial += o.nontrivial;
        self.distinct_nt.extend(o.distinct_nt);
        for (k, v) in o.labels {
            *self.labels.entry(k).or_default() += v;
        }
        for (k, v) in o.skipped {
            *self.skipped.entry(k).or_default() += v;
        }
        for (k, v) in o.counters {
            *self.counters.entry(k).or_default() += v;
        }
        for (k, (n, w)) in o.kf_hits {
            let e = self.kf_hits.entry(k).or_insert((0, w));
            e.0 += n;
        }
        self.samples.extend(o.samples);
    }
    fn absorb<P: Prop>(&mut self, case: &P::Case, ctx: &Ctx) {
        self.evaluations += 1;
        for l in &ctx.labels {
            *self.labels.entry(l.clone()).or_default() += 1;
        }
        for l in &ctx.skipped {
            *self.skipped.entry(l.clone()).or_default() += 1;
        }
        for (l, n) in &ctx.counters {
            *self.counters.entry(l.clone()).or_default() += n;
        }
        for (id, what) in &ctx.kf_hits {
            let e = self.kf_hits.entry(id.clone()).or_insert((0, what.clone()));
            e.0 += 1;
        }
        if ctx.nontrivial {
            self.nontrivial += 1;
            let dbg = format!("{:?}", case);
            let mut h = std::collections::hash_map::DefaultHasher::new();
            dbg.hash(&mut h);
            let fresh = self.distinct_nt.insert(h.finish());
            // keep: the first, one at the 64th, and the largest non-trivial case
            if fresh {
                let n = self.distinct_nt.len();
                if n == 1 || n == 64 {
                    self.samples.push((dbg.len(), P::describe(case)));
                } else if self.samples.len() < 3
                    || dbg.len() > self.samples.iter().map(|s| s.0).max().unwrap_or(0)
                {
                    if self.samples.len() >= 3 {
                        self.samples.pop();
                    }
                    self.samples.push((dbg.len(), P::describe(case)));
                }
            }
        }
    }
}

fn splitmix(mut x: u64) -> u64 {
    x = x.wrapping_add(0x9E3779B97F4A7C15);
    let mut z = x;
    z = (z ^ (z >> 30)).wrapping_mul(0xBF58476D1CE4E5B9);
    z = (z ^ (z >> 27)).wrapping_mul(0x94D049BB133111EB);
    z ^ (z >> 31)
}

pub fn derive_seed(seed: u64, id: &str, worker: u64) -> [u8; 32] {
    let mut h = splitmix(seed ^ 0xC7EE_9BD0_5EED_0001);
    for b in id.bytes() {
        h = splitmix(h ^ b as u64);
    }
    h = splitmix(h ^ worker.wrapping_mul(0x1000_0000_01B3));
    let mut out = [0u8; 32];
    for i in 0..4 {
        h = splitmix(h);
        out[i * 8..i * 8 + 8].copy_from_slice(&h.to_le_bytes());
    }
    out
}

pub struct FailInfo<C> {
    pub worker: usize,
    pub case: C,
    pub reason: String,
}

fn worker_config(cases: u32, shrink: bool) -> Config {
    Config {
        cases,
        failure_persistence: None,
        // phase 1 never shrinks (all workers search; a pure function of code and seed);
        // phase 2 re-runs the lowest failing worker alone with a large shrink budget
        max_shrink_iters: if shrink { 200_000 } else { 0 },
        max_shrink_time: if shrink {
            std::env::var("VERIF_SHRINK_MS").ok().and_then(|s| s.parse().ok()).unwrap_or(25_000)
        } else {
            0
        },
        max_global_rejects: 1024,
        ..Config::default()
    }
}

fn run_worker<P: Prop>(
    tier: Tier,
    seed: u64,
    w: usize,
    per_worker: u32,
    shrink: bool,
    active_kf: &BTreeSet<String>,
) -> (Stats, Option<(P::Case, String)>) {
    let rng = TestRng::from_seed(RngAlgorithm::ChaCha, &derive_seed(seed, P::ID, w as u64));
    let mut runner = TestRunner::new_with_rng(worker_config(per_worker, shrink), rng);
    let strat = P::strategy(tier);
    let stats = RefCell::new(Stats::default());
    let failed = std::cell::Cell::new(false);
    let res = runner.run(&strat, |case| {
        let mut ctx = Ctx::new(active_kf);
        let r = catch(|| P::check(&case, &mut ctx));
        let verdict: CheckResult = match r {
            Ok(v) => v,
            Err(p) => Err(Failure::new("panic", p)),
        };
        match verdict {
            Ok(()) => {
                if !failed.get() {
                    stats.borrow_mut().absorb::<P>(&case, &ctx);
                }
                Ok(())
            }
            Err(f) => {
                if !failed.get() {
                    failed.set(true);
                    stats.borrow_mut().evaluations += 1;
                }
                Err(TestCaseError::fail(f.to_string()))
            }
        }
    });
    let fail = match res {
        Ok(()) => None,
        Err(TestError::Fail(reason, case)) => Some((case, reason.to_string())),
        Err(TestError::Abort(reason)) => {
            eprintln!(
                "harness error: proptest aborted ({}): generator over-filtering is a harness defect",
                reason
            );
            std::process::exit(2);
        }
    };
    (stats.into_inner(), fail)
}

/// Run the generated part of a property on `WORKERS` threads.
pub fn run_generated<P: Prop>(
    tier: Tier,
    seed: u64,
    active_kf: &BTreeSet<String>,
) -> (Stats, Option<FailInfo<P::Case>>) {
    // VERIF_CASES overrides the tier's case count (for experiments with the machinery itself, e.g. to let
    // engine E4 be the one that finds a seeded change; never set by the registered commands)
    let total = std::env::var("VERIF_CASES").ok().and_then(|s| s.parse::<u32>().ok()).unwrap_or_else(|| P::cases(tier)).max(WORKERS as u32);
    let per_worker = (total + WORKERS as u32 - 1) / WORKERS as u32;
    let results: Arc<Mutex<Vec<(usize, Stats, Option<(P::Case, String)>)>>> =
        Arc::new(Mutex::new(vec![]));
    std::thread::scope(|sc| {
        let mut handles = vec![];
        for w in 0..WORKERS {
            let results = results.clone();
            let active_kf = active_kf.clone();
            handles.push(
                std::thread::Builder::new()
                    .stack_size(64 << 20)
                    .spawn_scoped(sc, move || {
                        let (stats, fail) = run_worker::<P>(tier, seed, w, per_worker, false, &active_kf);
                        results.lock().unwrap().push((w, stats, fail));
                    })
                    .expect("spawn worker"),
            );
        }
        for h in handles {
            if h.join().is_err() {
                eprintln!("harness error: a worker thread panicked outside a checked call");
                std::process::exit(2);
            }
        }
    });
    let mut results = Arc::try_unwrap(results).ok().unwrap().into_inner().unwrap();
    results.sort_by_key(|r| r.0);
    let mut all = Stats::default();
    let mut fail = None;
    let failing = results.iter().filter(|r| r.2.is_some()).count();
    if failing > 0 {
        // how many of the independent searches found a failure: the robustness of a detection
        eprintln!("failing workers: {} of {}", failing, WORKERS);
    }
    for (w, st, f) in results {
        all.merge(st);
        if fail.is_none() {
            if let Some((case, reason)) = f {
                fail = Some(FailInfo { worker: w, case, reason });
            }
        }
    }
    // phase 2: shrink the failure of the lowest failing worker (same seed => same failing case)
    if let Some(fi) = &mut fail {
        let w = fi.worker;
        let active = active_kf.clone();
        let shrunk = std::thread::scope(|sc| {
            std::thread::Builder::new()
                .stack_size(64 << 20)
                .spawn_scoped(sc, move || run_worker::<P>(tier, seed, w, per_worker, true, &active).1)
                .expect("spawn shrink worker")
                .join()
                .ok()
                .flatten()
        });
        if let Some((case, reason)) = shrunk {
            fi.case = case;
            fi.reason = reason;
        }
    }
    (all, fail)
}

pub fn replay_dir(id: &str) -> PathBuf {
    out_dir().join("replays").join(id)
}
pub fn regressions_dir(id: &str) -> PathBuf {
    Path::new(VERIF_DIR).join("regressions").join(id)
}

pub fn write_replay<P: Prop>(
    name: &str,
    seed: u64,
    tier: Tier,
    reason: &str,
    case: &P::Case,
) -> PathBuf {
    let dir = replay_dir(P::ID);
    let _ = std::fs::create_dir_all(&dir);
    let path = dir.join(name);
    let doc = json!({
        "property": P::ID,
        "seed": seed,
        "tier": tier.name(),
        "failure": reason,
        "case": serde_json::to_value(case).unwrap_or(Value::Null),
        "readable": P::describe(case),
    });
    let _ = std::fs::write(&path, serde_json::to_string_pretty(&doc).unwrap());
    path
}

pub fn read_case<P: Prop>(path: &Path) -> Result<P::Case, String> {
    let txt = std::fs::read_to_string(path).map_err(|e| format!("{}: {}", path.display(), e))?;
    let v: Value = serde_json::from_str(&txt).map_err(|e| format!("{}: {}", path.display(), e))?;
    let c = v.get("case").cloned().unwrap_or(v);
    serde_json::from_value::<P::Case>(c).map_err(|e| format!("{}: {}", path.display(), e))
}

/// Re-run exactly one saved case through the plain check function (no proptest).
pub fn replay_one<P: Prop>(path: &Path, active_kf: &BTreeSet<String>) -> Result<Ctx<'static>, (Failure, Option<P::Case>)> {
    // leak a copy of the set: replay is a handful of calls per process
    let leaked: &'static BTreeSet<String> = Box::leak(Box::new(active_kf.clone()));
    let case = match read_case::<P>(path) {
        Ok(c) => c,
        Err(e) => return Err((Failure::new("harness", format!("cannot read replay file: {}", e)), None)),
    };
    let mut ctx = Ctx::new(leaked);
    ctx.strict = true;
    let r = catch(|| P::check(&case, &mut ctx));
    match r {
        Ok(Ok(())) => Ok(ctx),
        Ok(Err(f)) => Err((f, Some(case))),
        Err(p) => Err((Failure::new("panic", p), Some(case))),
    }
}

pub struct Outcome {
    pub exit: i32,
}

/// Full run of one property: regressions, known-finding repros, generated cases, extra part,
/// evidence, verdict lines.
pub fn run_property<P: Prop>(tier: Tier, seed: u64) -> Outcome {
    let t0 = Instant::now();
    install_panic_hook();
    crate::common::THOROUGH.store(tier == Tier::Thorough, Ordering::Relaxed);
    let kfs = load_known_findings(P::ID);
    let active: BTreeSet<String> = kfs.iter().map(|k| k.id.clone()).collect();
    let mut violations: Vec<(String, String)> = vec![]; // (replay path, reason)
    let mut kf_seen: BTreeMap<String, (u64, String)> = BTreeMap::new();
    let mut regressions_replayed = 0u64;

    // 1. saved regression inputs (seconds-long replay tier)
    let mut files: Vec<PathBuf> = std::fs::read_dir(regressions_dir(P::ID))
        .map(|rd| rd.filter_map(|e| e.ok().map(|e| e.path())).collect())
        .unwrap_or_default();
    files.retain(|p| p.extension().map(|e| e == "json").unwrap_or(false));
    files.sort();
    for f in &files {
        regressions_replayed += 1;
        match replay_one::<P>(f, &active) {
            Ok(ctx) => {
                for (id, what) in ctx.kf_hits {
                    let e = kf_seen.entry(id).or_insert((0, what));
                    e.0 += 1;
                }
            }
            Err((fl, _)) => {
                if fl.sub == "harness" {
                    eprintln!("harness error: {}", fl.msg);
                    return Outcome { exit: 2 };
                }
                violations.push((f.display().to_string(), fl.to_string()));
            }
        }
    }
    // 2. repro files of the listed known findings
    for k in &kfs {
        if let Some(r) = &k.repro {
            let p = Path::new(VERIF_DIR).join(r);
            if !p.exists() {
                continue;
            }
            match replay_one::<P>(&p, &active) {
                Ok(ctx) => {
                    for (id, what) in ctx.kf_hits {
                        let e = kf_seen.entry(id).or_insert((0, what));
                        e.0 += 1;
                    }
                }
                Err((fl, _)) => {
                    if fl.sub == "harness" {
                        eprintln!("harness error: {}", fl.msg);
                        return Outcome { exit: 2 };
                    }
                    violations.push((p.display().to_string(), fl.to_string()));
                }
            }
        }
    }

    // 3. generated cases
    let (mut stats, fail) = run_generated::<P>(tier, seed, &active);
    if let Some(fi) = &fail {
        let name = format!("{}-{}-seed{}-w{}.json", P::ID, tier.name(), seed, fi.worker);
        let path = write_replay::<P>(&name, seed, tier, &fi.reason, &fi.case);
        let mut reason = fi.reason.clone();
        // Does the case fail on its own? A failure that needs the evaluations that came before it in the same
        // process (a cache or static keyed by too little) passes when the case is evaluated alone: then the
        // reproducible unit is the worker's sequence, which is a pure function of code, seed and tier, and the
        // replay file says so (`vcheck replay` then re-runs that sequence).
        if let Ok(exe) = std::env::current_exe() {
            if let Ok(out) = std::process::Command::new(exe).arg("replay").arg(&path).env("VERIF_REPLAY_PLAIN", "1").output() {
                if out.status.code() == Some(0) {
                    let total = std::env::var("VERIF_CASES").ok().and_then(|s| s.parse::<u32>().ok()).unwrap_or_else(|| P::cases(tier)).max(WORKERS as u32);
                    let per_worker = (total + WORKERS as u32 - 1) / WORKERS as u32;
                    if let Ok(txt) = std::fs::read_to_string(&path) {
                        if let Ok(mut doc) = serde_json::from_str::<Value>(&txt) {
                            doc["history"] = json!({"worker": fi.worker, "per_worker": per_worker, "seed": seed, "tier": tier.name(),
                                "note": "the case passes when evaluated alone in a fresh process; the failure needs the evaluations that precede it in the worker's sequence"});
                            let _ = std::fs::write(&path, serde_json::to_string_pretty(&doc).unwrap());
                        }
                    }
                    reason = format!("{} [the shrunk case passes when evaluated alone in a fresh process: the failure depends on the evaluations that preceded it in the process (state that survives between calls) or on something that varies from run to run; the replay file re-runs the worker's sequence]", reason);
                    eprintln!("note: the failing case passes on its own in a fresh process: the failure depends on earlier evaluations or varies from run to run");
                }
            }
        }
        violations.push((path.display().to_string(), reason));
    }
    for (id, (n, what)) in &stats.kf_hits {
        let e = kf_seen.entry(id.clone()).or_insert((0, what.clone()));
        e.0 += n;
    }

    // 4. extra (out-of-process) part
    let mut extra_ev: BTreeMap<String, Value> = BTreeMap::new();
    if violations.is_empty() {
        if let Err((f, readable)) = P::extra(tier, seed, &mut extra_ev) {
            if f.sub == "harness" {
                eprintln!("harness error: {}", f.msg);
                return Outcome { exit: 2 };
            }
            let dir = replay_dir(P::ID);
            let _ = std::fs::create_dir_all(&dir);
            let path = dir.join(format!("{}-{}-seed{}-extra.json", P::ID, tier.name(), seed));
            // `readable` may carry a replayable case under "case"
            let doc = json!({"property": P::ID, "seed": seed, "tier": tier.name(),
                "failure": f.to_string(),
                "case": readable.get("case").cloned().unwrap_or(Value::Null),
                "readable": readable.get("readable").cloned().unwrap_or(readable.clone())});
            let _ = std::fs::write(&path, serde_json::to_string_pretty(&doc).unwrap());
            violations.push((path.display().to_string(), f.to_string()));
        }
    }

    // 5. evidence
    let wall = t0.elapsed().as_secs_f64();
    stats.samples.sort_by_key(|s| s.0);
    let samples: Vec<Value> = stats.samples.iter().map(|s| s.1.clone()).take(4).collect();
    let mut coverage = serde_json::Map::new();
    coverage.insert("evaluations".into(), json!(stats.evaluations));
    coverage.insert("distinct_nontrivial".into(), json!(stats.distinct_nt.len()));
    coverage.insert("nontrivial_total".into(), json!(stats.nontrivial));
    coverage.insert("rule".into(), json!(P::rule()));
    coverage.insert("samples".into(), Value::Array(samples));
    coverage.insert("classes".into(), json!(stats.labels));
    coverage.insert("skipped".into(), json!(stats.skipped));
    coverage.insert("counters".into(), json!(stats.counters));
    coverage.insert(
        "known_finding_hits".into(),
        json!(kf_seen.iter().map(|(k, v)| (k.clone(), v.0)).collect::<BTreeMap<_, _>>()),
    );
    coverage.insert("regressions_replayed".into(), json!(regressions_replayed));
    coverage.insert("workers".into(), json!(WORKERS));
    coverage.insert("exhaustive".into(), json!(false));
    let mut health = vec![];
    if stats.evaluations > 0 && (stats.nontrivial as f64) < 0.01 * stats.evaluations as f64 {
        health.push(format!(
            "GENERATOR-HEALTH: only {} of {} cases non-trivial",
            stats.nontrivial, stats.evaluations
        ));
    }
    coverage.insert("generator_health".into(), json!(health));
    for (k, v) in extra_ev {
        coverage.insert(k, v);
    }
    let ev = json!({
        "property_id": P::ID,
        "tier": tier.name(),
        "seed": seed,
        "level": "exploration",
        "coverage": Value::Object(coverage),
        "assumptions": P::assumptions(),
        "wall_s": (wall * 1000.0).round() / 1000.0,
        "violations": violations.len(),
    });
    let evdir = out_dir().join("evidence");
    let _ = std::fs::create_dir_all(&evdir);
    let evpath = evdir.join(format!("{}.json", P::ID));
    if let Err(e) = std::fs::write(&evpath, serde_json::to_string_pretty(&ev).unwrap()) {
        eprintln!("harness error: cannot write evidence {}: {}", evpath.display(), e);
        return Outcome { exit: 2 };
    }

    // 6. verdict
    for (id, (n, what)) in &kf_seen {
        let listed = kfs.iter().find(|k| &k.id == id).map(|k| k.what.clone()).unwrap_or_default();
        println!(
            "KNOWN-FINDING: property={} {}: {} [hits this run: {}; e.g. {}]",
            P::ID,
            id,
            listed,
            n,
            what
        );
    }
    println!(
        "{} {} seed={} evaluations={} nontrivial={} distinct_nontrivial={} wall={:.1}s",
        P::ID,
        tier.name(),
        seed,
        stats.evaluations,
        stats.nontrivial,
        stats.distinct_nt.len(),
        wall
    );
    if violations.is_empty() {
        println!("OK property={}", P::ID);
        Outcome { exit: 0 }
    } else {
        for (path, reason) in &violations {
            eprintln!("failure: {}", reason);
            println!("VIOLATION property={} replay={}", P::ID, path);
        }
        Outcome { exit: 1 }
    }
}

/// `vcheck replay <file>`: one case through the plain check.
pub fn replay_cmd<P: Prop>(path: &Path) -> Outcome {
    let kfs = load_known_findings(P::ID);
    let active: BTreeSet<String> = kfs.iter().map(|k| k.id.clone()).collect();
    match replay_one::<P>(path, &active) {
        Ok(ctx) => {
            for (id, what) in &ctx.kf_hits {
                println!("KNOWN-FINDING: property={} {}: {}", P::ID, id, what);
            }
            // a history-dependent failure: re-run the worker's sequence (pure function of code, seed and tier)
            let hist = std::fs::read_to_string(path).ok().and_then(|t| serde_json::from_str::<Value>(&t).ok()).and_then(|v| v.get("history").cloned());
            if let (Some(h), Err(_)) = (hist, std::env::var("VERIF_REPLAY_PLAIN")) {
                let w = h.get("worker").and_then(|x| x.as_u64()).unwrap_or(0) as usize;
                let per_worker = h.get("per_worker").and_then(|x| x.as_u64()).unwrap_or(1) as u32;
                let seed = h.get("seed").and_then(|x| x.as_u64()).unwrap_or(0);
                let tier = if h.get("tier").and_then(|x| x.as_str()) == Some("thorough") { Tier::Thorough } else { Tier::Quick };
                crate::common::THOROUGH.store(tier == Tier::Thorough, Ordering::Relaxed);
                let res = std::thread::scope(|sc| {
                    std::thread::Builder::new()
                        .stack_size(64 << 20)
                        .spawn_scoped(sc, || run_worker::<P>(tier, seed, w, per_worker, false, &active).1)
                        .expect("spawn replay worker")
                        .join()
                        .ok()
                        .flatten()
                });
                if let Some((_, reason)) = res {
                    eprintln!("failure: {} [reproduced by re-running the sequence of worker {}]", reason, w);
                    println!("VIOLATION property={} replay={}", P::ID, path.display());
                    return Outcome { exit: 1 };
                }
                println!("OK property={} replay={} (case passes, and so does the recorded sequence)", P::ID, path.display());
                return Outcome { exit: 0 };
            }
            println!("OK property={} replay={} (case passes)", P::ID, path.display());
            Outcome { exit: 0 }
        }
        Err((f, _)) => {
            if f.sub == "harness" {
                eprintln!("harness error: {}", f.msg);
                return Outcome { exit: 2 };
            }
            eprintln!("failure: {}", f);
            println!("VIOLATION property={} replay={}", P::ID, path.display());
            Outcome { exit: 1 }
        }
    }
}

/// helper for strategies: boxed
pub fn boxed<S: Strategy + 'static>(s: S) -> BoxedStrategy<S::Value> {
    s.boxed()
}
