//! Domain vocabulary of the harness: carriers, services, production sources.
//!
//! These are the harness' own enumerations (serialisable, ordered, indexable). They are mapped
//! onto the library's enums only at the border (`to_lib_*` / `from_lib_*`), so that the reference
//! model never relies on the library's own conversion tables (`From<ProdSource> for Carrier`, …).

use serde::{Deserialize, Serialize};

#[allow(non_camel_case_types)]
#[derive(Debug, Clone, Copy, PartialEq, Eq, PartialOrd, Ord, Hash, Serialize, Deserialize)]
pub enum Car {
    EAMBIENTE,
    BIOCARBURANTE,
    BIOMASA,
    BIOMASADENSIFICADA,
    CARBON,
    ELECTRICIDAD,
    GASNATURAL,
    GASOLEO,
    GLP,
    RED1,
    RED2,
    TERMOSOLAR,
}

pub const ALL_CARS: [Car; 12] = [
    Car::EAMBIENTE,
    Car::BIOCARBURANTE,
    Car::BIOMASA,
    Car::BIOMASADENSIFICADA,
    Car::CARBON,
    Car::ELECTRICIDAD,
    Car::GASNATURAL,
    Car::GASOLEO,
    Car::GLP,
    Car::RED1,
    Car::RED2,
    Car::TERMOSOLAR,
];

impl Car {
    pub fn idx(self) -> usize {
        self as usize
    }
    pub fn name(self) -> &'static str {
        match self {
            Car::EAMBIENTE => "EAMBIENTE",
            Car::BIOCARBURANTE => "BIOCARBURANTE",
            Car::BIOMASA => "BIOMASA",
            Car::BIOMASADENSIFICADA => "BIOMASADENSIFICADA",
            Car::CARBON => "CARBON",
            Car::ELECTRICIDAD => "ELECTRICIDAD",
            Car::GASNATURAL => "GASNATURAL",
            Car::GASOLEO => "GASOLEO",
            Car::GLP => "GLP",
            Car::RED1 => "RED1",
            Car::RED2 => "RED2",
            Car::TERMOSOLAR => "TERMOSOLAR",
        }
    }
    /// Nearby perimeter (EN ISO 52000-1 B.23 as adopted by the CTE): solid biomass, district
    /// networks, ambient heat, solar thermal.
    pub fn is_nearby(self) -> bool {
        matches!(
            self,
            Car::BIOMASA
                | Car::BIOMASADENSIFICADA
                | Car::RED1
                | Car::RED2
                | Car::EAMBIENTE
                | Car::TERMOSOLAR
        )
    }
    /// On-site perimeter (other than on-site electricity).
    pub fn is_onsite(self) -> bool {
        matches!(self, Car::EAMBIENTE | Car::TERMOSOLAR)
    }
    pub fn to_lib(self) -> cteepbd::types::Carrier {
        use cteepbd::types::Carrier as C;
        match self {
            Car::EAMBIENTE => C::EAMBIENTE,
            Car::BIOCARBURANTE => C::BIOCARBURANTE,
            Car::BIOMASA => C::BIOMASA,
            Car::BIOMASADENSIFICADA => C::BIOMASADENSIFICADA,
            Car::CARBON => C::CARBON,
            Car::ELECTRICIDAD => C::ELECTRICIDAD,
            Car::GASNATURAL => C::GASNATURAL,
            Car::GASOLEO => C::GASOLEO,
            Car::GLP => C::GLP,
            Car::RED1 => C::RED1,
            Car::RED2 => C::RED2,
            Car::TERMOSOLAR => C::TERMOSOLAR,
        }
    }
    pub fn from_lib(c: cteepbd::types::Carrier) -> Car {
        use cteepbd::types::Carrier as C;
        match c {
            C::EAMBIENTE => Car::EAMBIENTE,
            C::BIOCARBURANTE => Car::BIOCARBURANTE,
            C::BIOMASA => Car::BIOMASA,
            C::BIOMASADENSIFICADA => Car::BIOMASADENSIFICADA,
            C::CARBON => Car::CARBON,
            C::ELECTRICIDAD => Car::ELECTRICIDAD,
            C::GASNATURAL => Car::GASNATURAL,
            C::GASOLEO => Car::GASOLEO,
            C::GLP => Car::GLP,
            C::RED1 => Car::RED1,
            C::RED2 => Car::RED2,
            C::TERMOSOLAR => Car::TERMOSOLAR,
        }
    }
}

#[derive(Debug, Clone, Copy, PartialEq, Eq, PartialOrd, Ord, Hash, Serialize, Deserialize)]
pub enum Srv {
    ACS,
    CAL,
    REF,
    VEN,
    ILU,
    NEPB,
    COGEN,
}

pub const ALL_SRVS: [Srv; 7] = [
    Srv::ACS,
    Srv::CAL,
    Srv::REF,
    Srv::VEN,
    Srv::ILU,
    Srv::NEPB,
    Srv::COGEN,
];
pub const EPB_SRVS: [Srv; 5] = [Srv::ACS, Srv::CAL, Srv::REF, Srv::VEN, Srv::ILU];

impl Srv {
    pub fn idx(self) -> usize {
        self as usize
    }
    pub fn name(self) -> &'static str {
        match self {
            Srv::ACS => "ACS",
            Srv::CAL => "CAL",
            Srv::REF => "REF",
            Srv::VEN => "VEN",
            Srv::ILU => "ILU",
            Srv::NEPB => "NEPB",
            Srv::COGEN => "COGEN",
        }
    }
    pub fn is_epb(self) -> bool {
        !matches!(self, Srv::NEPB | Srv::COGEN)
    }
    pub fn to_lib(self) -> cteepbd::types::Service {
        use cteepbd::types::Service as S;
        match self {
            Srv::ACS => S::ACS,
            Srv::CAL => S::CAL,
            Srv::REF => S::REF,
            Srv::VEN => S::VEN,
            Srv::ILU => S::ILU,
            Srv::NEPB => S::NEPB,
            Srv::COGEN => S::COGEN,
        }
    }
    pub fn from_lib(s: cteepbd::types::Service) -> Srv {
        use cteepbd::types::Service as S;
        match s {
            S::ACS => Srv::ACS,
            S::CAL => Srv::CAL,
            S::REF => Srv::REF,
            S::VEN => Srv::VEN,
            S::ILU => Srv::ILU,
            S::NEPB => Srv::NEPB,
            S::COGEN => Srv::COGEN,
        }
    }
}

#[allow(non_camel_case_types)]
#[derive(Debug, Clone, Copy, PartialEq, Eq, PartialOrd, Ord, Hash, Serialize, Deserialize)]
pub enum Src {
    EL_INSITU,
    EL_COGEN,
    TERMOSOLAR,
    EAMBIENTE,
}

pub const ALL_SRCS: [Src; 4] = [Src::EL_INSITU, Src::EL_COGEN, Src::TERMOSOLAR, Src::EAMBIENTE];

impl Src {
    pub fn idx(self) -> usize {
        self as usize
    }
    pub fn name(self) -> &'static str {
        match self {
            Src::EL_INSITU => "EL_INSITU",
            Src::EL_COGEN => "EL_COGEN",
            Src::TERMOSOLAR => "TERMOSOLAR",
            Src::EAMBIENTE => "EAMBIENTE",
        }
    }
    /// Carrier produced by the source.
    pub fn carrier(self) -> Car {
        match self {
            Src::EL_INSITU | Src::EL_COGEN => Car::ELECTRICIDAD,
            Src::TERMOSOLAR => Car::TERMOSOLAR,
            Src::EAMBIENTE => Car::EAMBIENTE,
        }
    }
    /// Is it an on-site (non cogeneration) source?
    pub fn is_insitu(self) -> bool {
        !matches!(self, Src::EL_COGEN)
    }
    pub fn to_lib(self) -> cteepbd::types::ProdSource {
        use cteepbd::types::ProdSource as P;
        match self {
            Src::EL_INSITU => P::EL_INSITU,
            Src::EL_COGEN => P::EL_COGEN,
            Src::TERMOSOLAR => P::TERMOSOLAR,
            Src::EAMBIENTE => P::EAMBIENTE,
        }
    }
    pub fn from_lib(s: cteepbd::types::ProdSource) -> Src {
        use cteepbd::types::ProdSource as P;
        match s {
            P::EL_INSITU => Src::EL_INSITU,
            P::EL_COGEN => Src::EL_COGEN,
            P::TERMOSOLAR => Src::TERMOSOLAR,
            P::EAMBIENTE => Src::EAMBIENTE,
        }
    }
}

/// Origin of a factor: grid, on-site, cogeneration
#[derive(Debug, Clone, Copy, PartialEq, Eq, PartialOrd, Ord, Hash, Serialize, Deserialize)]
pub enum FSrc {
    RED,
    INSITU,
    COGEN,
}
#[allow(non_camel_case_types)]
#[derive(Debug, Clone, Copy, PartialEq, Eq, PartialOrd, Ord, Hash, Serialize, Deserialize)]
pub enum FDest {
    SUMINISTRO,
    A_RED,
    A_NEPB,
}
#[derive(Debug, Clone, Copy, PartialEq, Eq, PartialOrd, Ord, Hash, Serialize, Deserialize)]
pub enum FStep {
    A,
    B,
}

impl FSrc {
    pub fn name(self) -> &'static str {
        match self {
            FSrc::RED => "RED",
            FSrc::INSITU => "INSITU",
            FSrc::COGEN => "COGEN",
        }
    }
    pub fn from_lib(s: cteepbd::types::Source) -> FSrc {
        use cteepbd::types::Source as S;
        match s {
            S::RED => FSrc::RED,
            S::INSITU => FSrc::INSITU,
            S::COGEN => FSrc::COGEN,
        }
    }
    pub fn to_lib(self) -> cteepbd::types::Source {
        use cteepbd::types::Source as S;
        match self {
            FSrc::RED => S::RED,
            FSrc::INSITU => S::INSITU,
            FSrc::COGEN => S::COGEN,
        }
    }
}
impl FDest {
    pub fn name(self) -> &'static str {
        match self {
            FDest::SUMINISTRO => "SUMINISTRO",
            FDest::A_RED => "A_RED",
            FDest::A_NEPB => "A_NEPB",
        }
    }
    pub fn from_lib(s: cteepbd::types::Dest) -> FDest {
        use cteepbd::types::Dest as D;
        match s {
            D::SUMINISTRO => FDest::SUMINISTRO,
            D::A_RED => FDest::A_RED,
            D::A_NEPB => FDest::A_NEPB,
        }
    }
    pub fn to_lib(self) -> cteepbd::types::Dest {
        use cteepbd::types::Dest as D;
        match self {
            FDest::SUMINISTRO => D::SUMINISTRO,
            FDest::A_RED => D::A_RED,
            FDest::A_NEPB => D::A_NEPB,
        }
    }
}
impl FStep {
    pub fn name(self) -> &'static str {
        match self {
            FStep::A => "A",
            FStep::B => "B",
        }
    }
    pub fn from_lib(s: cteepbd::types::Step) -> FStep {
        use cteepbd::types::Step as S;
        match s {
            S::A => FStep::A,
            S::B => FStep::B,
        }
    }
    pub fn to_lib(self) -> cteepbd::types::Step {
        use cteepbd::types::Step as S;
        match self {
            FStep::A => S::A,
            FStep::B => S::B,
        }
    }
}

/// Factor source that applies to a production source (model's own table).
pub fn fsrc_of(src: Src) -> FSrc {
    if src.is_insitu() {
        FSrc::INSITU
    } else {
        FSrc::COGEN
    }
}
