//! The factor-set grammar (DESIGN 3.2).

use proptest::collection::vec;
use proptest::prelude::*;
use proptest::sample::select;
use serde::{Deserialize, Serialize};

use cteepbd::{cte, types::RenNrenCo2, Factors, UserWF};

use crate::dom::*;

pub const LOCS: [&str; 4] = ["PENINSULA", "BALEARES", "CANARIAS", "CEUTAMELILLA"];

#[derive(Clone, Debug, PartialEq, Serialize, Deserialize)]
pub struct FLine {
    pub car: Car,
    pub src: FSrc,
    pub dest: FDest,
    pub step: FStep,
    pub f: [f32; 3],
    #[serde(default)]
    pub comment: String,
}

impl FLine {
    pub fn key(&self) -> (Car, FSrc, FDest, FStep) {
        (self.car, self.src, self.dest, self.step)
    }
    pub fn render(&self) -> String {
        let c = if self.comment.is_empty() { String::new() } else { format!(" # {}", self.comment) };
        format!(
            "{}, {}, {}, {}, {}, {}, {}{}",
            self.car.name(),
            self.src.name(),
            self.dest.name(),
            self.step.name(),
            crate::gen::f32_text(self.f[0]),
            crate::gen::f32_text(self.f[1]),
            crate::gen::f32_text(self.f[2]),
            c
        )
    }
}

#[derive(Clone, Debug, PartialEq, Serialize, Deserialize)]
pub enum FactorCase {
    Regulatory {
        loc: String,
        red1: Option<[f32; 3]>,
        red2: Option<[f32; 3]>,
    },
    UserFile {
        #[serde(default)]
        meta: Vec<(String, String)>,
        lines: Vec<FLine>,
        red1: Option<[f32; 3]>,
        red2: Option<[f32; 3]>,
    },
}

pub fn milli_f32(m: u32) -> f32 {
    format!("{}.{:03}", m / 1000, m % 1000).parse::<f32>().unwrap()
}

fn rnc(v: &Option<[f32; 3]>) -> Option<RenNrenCo2> {
    v.map(|a| RenNrenCo2::new(a[0], a[1], a[2]))
}

impl FactorCase {
    pub fn user(&self) -> UserWF<Option<RenNrenCo2>> {
        match self {
            FactorCase::Regulatory { red1, red2, .. } | FactorCase::UserFile { red1, red2, .. } => {
                UserWF { red1: rnc(red1), red2: rnc(red2) }
            }
        }
    }
    pub fn file_text(&self) -> Option<String> {
        match self {
            FactorCase::Regulatory { .. } => None,
            FactorCase::UserFile { meta, lines, .. } => {
                let mut out = vec![];
                for (k, v) in meta {
                    out.push(format!("#META {}: {}", k, v));
                }
                for l in lines {
                    out.push(l.render());
                }
                Some(out.join("\n"))
            }
        }
    }
    /// the prepared factor set, through the library's documented pipelines
    pub fn prepare(&self) -> Result<Factors, cteepbd::error::EpbdError> {
        match self {
            FactorCase::Regulatory { loc, .. } => {
                cte::wfactors_from_loc(loc, &cte::CTE_LOCWF_RITE2014, self.user(), cte::CTE_USERWF)
            }
            FactorCase::UserFile { .. } => {
                cte::wfactors_from_str(&self.file_text().unwrap(), self.user(), cte::CTE_USERWF)
            }
        }
    }
    pub fn is_regulatory(&self) -> bool {
        matches!(self, FactorCase::Regulatory { .. })
    }
    pub fn describe(&self) -> serde_json::Value {
        match self {
            FactorCase::Regulatory { loc, red1, red2 } => {
                serde_json::json!({"regulatory": loc, "red1": red1, "red2": red2})
            }
            FactorCase::UserFile { red1, red2, .. } => {
                serde_json::json!({"user_file": self.file_text().unwrap(), "red1": red1, "red2": red2})
            }
        }
    }
}

pub fn triple() -> BoxedStrategy<[f32; 3]> {
    let one = prop_oneof![
        1 => Just(0u32),
        1 => Just(1000u32),
        10 => 1u32..=3000,
    ];
    // (the all-zero triple - "no resources, no credit" - and the forced shape (1, 0, 0) are values of their own)
    prop_oneof![
        1 => Just([0.0f32, 0.0, 0.0]),
        1 => Just([1.0f32, 0.0, 0.0]),
        // the program's own built-in default for RED1 / RED2: a user value equal to the default is still a user value
        2 => Just([0.0f32, 1.3, 0.3]),
        // factors below the three decimals the emitted files print (not all zero): they print as 0.000
        1 => (0u32..=4, 0u32..=4, 1u32..=4).prop_map(|(a, b, c)| {
            let t = |x: u32| format!("0.{:04}", x).parse::<f32>().unwrap();
            [t(a), t(b), t(c)]
        }),
        22 => (one.clone(), one.clone(), one).prop_map(|(a, b, c)| [milli_f32(a), milli_f32(b), milli_f32(c)]),
    ]
    .boxed()
}

/// a triple whose ren + nren is strictly positive (needed where a share ren/(ren+nren) is used)
pub fn triple_pos() -> BoxedStrategy<[f32; 3]> {
    (0u32..=3000, 1u32..=3000, 0u32..=3000)
        .prop_map(|(a, b, c)| [milli_f32(a), milli_f32(b), milli_f32(c)])
        .boxed()
}

pub fn opt_triple() -> BoxedStrategy<Option<[f32; 3]>> {
    proptest::option::weighted(0.4, triple()).boxed()
}

pub fn regulatory() -> BoxedStrategy<FactorCase> {
    (select(LOCS.to_vec()), opt_triple(), opt_triple())
        .prop_map(|(loc, red1, red2)| FactorCase::Regulatory { loc: loc.to_string(), red1, red2 })
        .boxed()
}

pub const EXP_CARS: [Car; 3] = [Car::ELECTRICIDAD, Car::EAMBIENTE, Car::TERMOSOLAR];

#[derive(Clone, Debug)]
pub struct UserFileG {
    pub grid: Vec<(bool, [f32; 3])>,             // 12 carriers
    pub exports: Vec<Option<[f32; 3]>>,          // 3 carriers x 2 dests x 2 steps
    pub onsite: Vec<Option<[f32; 3]>>,           // 3 carriers
    pub dups: Vec<(u8, [f32; 3])>,
    pub order: Vec<u8>,
    pub shuffle: bool,
    pub red1: Option<[f32; 3]>,
    pub red2: Option<[f32; 3]>,
    pub comments: bool,
    /// RED-sourced lines that are not a supply factor of step A (`X, RED, SUMINISTRO, B`, `X, RED, A_RED, A`, ...):
    /// they parse, nothing reads them, and they must not pass for the carrier's grid factor. (selector, shape, value);
    /// placed before everything else
    pub odd: Vec<(u8, u8, [f32; 3])>,
}

pub fn user_file_g() -> BoxedStrategy<UserFileG> {
    (
        vec((prop::bool::weighted(0.6), triple()), 12),
        vec(proptest::option::weighted(0.5, triple()), 12),
        vec(proptest::option::weighted(0.3, triple()), 3),
        vec((any::<u8>(), triple()), 0..=2),
        vec(any::<u8>(), 40),
        any::<bool>(),
        opt_triple(),
        opt_triple(),
        any::<bool>(),
        prop_oneof![3 => Just(vec![]), 1 => vec((any::<u8>(), 0u8..4, triple()), 1..=2)],
    )
        .prop_map(|(grid, exports, onsite, dups, order, shuffle, red1, red2, comments, odd)| UserFileG {
            grid,
            exports,
            onsite,
            dups,
            order,
            shuffle,
            red1,
            red2,
            comments,
            odd,
        })
        .boxed()
}

/// Resolve a user-file genome. `need`: carriers that must have a grid supply factor (the carriers
/// of the building it will be used with). ELECTRICIDAD is always present (every real set has it).
pub fn resolve_user_file(g: &UserFileG, need: &[Car], usable: bool) -> FactorCase {
    let mut lines: Vec<FLine> = vec![];
    for (i, car) in ALL_CARS.iter().enumerate() {
        let present = g.grid[i].0 || need.contains(car) || *car == Car::ELECTRICIDAD;
        if present {
            lines.push(FLine {
                car: *car,
                src: FSrc::RED,
                dest: FDest::SUMINISTRO,
                step: FStep::A,
                f: g.grid[i].1,
                comment: if g.comments { format!("red {}", car.name()) } else { String::new() },
            });
        }
    }
    let mut k = 0;
    for car in EXP_CARS {
        for dest in [FDest::A_RED, FDest::A_NEPB] {
            for step in [FStep::A, FStep::B] {
                if let Some(f) = g.exports[k] {
                    lines.push(FLine { car, src: FSrc::INSITU, dest, step, f, comment: String::new() });
                }
                k += 1;
            }
        }
    }
    for (i, car) in EXP_CARS.iter().enumerate() {
        if let Some(f) = g.onsite[i] {
            lines.push(FLine { car: *car, src: FSrc::INSITU, dest: FDest::SUMINISTRO, step: FStep::A, f, comment: String::new() });
        }
    }
    if g.shuffle {
        let mut keyed: Vec<(u8, FLine)> = lines.into_iter().enumerate().map(|(i, l)| (g.order[i % g.order.len()], l)).collect();
        keyed.sort_by_key(|(k, _)| *k);
        lines = keyed.into_iter().map(|(_, l)| l).collect();
    }
    // duplicates of an existing key, appended after: the first occurrence must win
    for (i, f) in &g.dups {
        if lines.is_empty() {
            break;
        }
        let src = lines[(*i as usize * lines.len()) >> 8].clone();
        lines.push(FLine { f: *f, comment: "duplicado".into(), ..src });
    }
    let _ = usable;
    // odd RED-sourced lines of carriers that do have their grid factor, ahead of it in the file
    let with_grid: Vec<Car> = lines.iter().filter(|l| l.src == FSrc::RED && l.dest == FDest::SUMINISTRO && l.step == FStep::A).map(|l| l.car).collect();
    for (sel, shape, f) in g.odd.iter().rev() {
        if with_grid.is_empty() {
            break;
        }
        let car = with_grid[(*sel as usize * with_grid.len()) >> 8];
        let (dest, step) = odd_red_shape(*shape);
        lines.insert(0, FLine { car, src: FSrc::RED, dest, step, f: *f, comment: String::new() });
    }
    FactorCase::UserFile { meta: vec![], lines, red1: g.red1, red2: g.red2 }
}

/// the four shapes of a RED-sourced line that is not `RED, SUMINISTRO, A`
pub fn odd_red_shape(i: u8) -> (FDest, FStep) {
    match i % 4 {
        0 => (FDest::SUMINISTRO, FStep::B),
        1 => (FDest::A_RED, FStep::A),
        2 => (FDest::A_RED, FStep::B),
        _ => (FDest::A_NEPB, FStep::A),
    }
}

/// factor case for a building with the given carriers: 70 % user files, 30 % regulatory
pub fn factor_case_for(need: Vec<Car>, user_pct: u32) -> BoxedStrategy<FactorCase> {
    let uf = user_file_g().prop_map(move |g| resolve_user_file(&g, &need, true));
    prop_oneof![
        user_pct => uf,
        (100 - user_pct) => regulatory(),
    ]
    .boxed()
}

/// largest |factor| (ren, nren, co2) stored for a carrier in a prepared set
pub fn max_factor(f: &Factors, car: Car) -> f64 {
    let lc = car.to_lib();
    f.wdata
        .iter()
        .filter(|x| x.carrier == lc)
        .map(|x| x.ren.abs().max(x.nren.abs()).max(x.co2.abs()) as f64)
        .fold(0.0, f64::max)
}
