//! A strict, small XML 1.0 well-formedness checker (no XML crate is available offline).
//! Accepts: one root element, nested elements with optional attributes, character data with the
//! five predefined entities and numeric character references, comments, an optional XML
//! declaration / processing instructions, CDATA sections. Rejects everything else.

#[derive(Debug, Clone, Default)]
pub struct Node {
    pub name: String,
    pub text: String,
    pub children: Vec<Node>,
}

impl Node {
    pub fn child(&self, name: &str) -> Option<&Node> {
        self.children.iter().find(|c| c.name == name)
    }
    pub fn all<'a>(&'a self, name: &str, out: &mut Vec<&'a Node>) {
        for c in &self.children {
            if c.name == name {
                out.push(c);
            }
            c.all(name, out);
        }
    }
    pub fn find_all(&self, name: &str) -> Vec<&Node> {
        let mut v = vec![];
        self.all(name, &mut v);
        v
    }
}

struct P<'a> {
    s: &'a [u8],
    src: &'a str,
    i: usize,
}

fn is_name_start(c: char) -> bool {
    c.is_alphabetic() || c == '_' || c == ':'
}
fn is_name_char(c: char) -> bool {
    c.is_alphanumeric() || matches!(c, '_' | ':' | '-' | '.')
}

/// XML 1.0 Char production
fn is_xml_char(c: char) -> bool {
    matches!(c, '\u{9}' | '\u{A}' | '\u{D}' | '\u{20}'..='\u{D7FF}' | '\u{E000}'..='\u{FFFD}' | '\u{10000}'..='\u{10FFFF}')
}

impl<'a> P<'a> {
    fn rest(&self) -> &'a str {
        &self.src[self.i..]
    }
    fn err<T>(&self, msg: &str) -> Result<T, String> {
        let ctx: String = self.rest().chars().take(40).collect();
        Err(format!("{} at byte {} near `{}`", msg, self.i, ctx))
    }
    fn starts(&self, t: &str) -> bool {
        self.rest().starts_with(t)
    }
    fn skip_ws(&mut self) {
        while self.i < self.s.len() && matches!(self.s[self.i], b' ' | b'\t' | b'\r' | b'\n') {
            self.i += 1;
        }
    }
    fn name(&mut self) -> Result<String, String> {
        let mut it = self.rest().char_indices();
        match it.next() {
            Some((_, c)) if is_name_start(c) => {}
            _ => return self.err("expected a name"),
        }
        let mut end = self.rest().len();
        for (j, c) in self.rest().char_indices() {
            if !is_name_char(c) {
                end = j;
                break;
            }
        }
        let n = self.rest()[..end].to_string();
        self.i += end;
        Ok(n)
    }
    fn reference(&mut self) -> Result<char, String> {
        // at '&'
        let r = self.rest();
        let end = match r.find(';') {
            Some(e) if e <= 12 => e,
            _ => return self.err("unterminated or raw `&`"),
        };
        let body = &r[1..end];
        let c = match body {
            "amp" => '&',
            "lt" => '<',
            "gt" => '>',
            "apos" => '\'',
            "quot" => '"',
            _ if body.starts_with("#x") => match u32::from_str_radix(&body[2..], 16).ok().and_then(char::from_u32) {
                Some(c) if is_xml_char(c) => c,
                _ => return self.err("bad character reference"),
            },
            _ if body.starts_with('#') => match body[1..].parse::<u32>().ok().and_then(char::from_u32) {
                Some(c) if is_xml_char(c) => c,
                _ => return self.err("bad character reference"),
            },
            _ => return self.err("undefined entity"),
        };
        self.i += end + 1;
        Ok(c)
    }
    fn comment(&mut self) -> Result<(), String> {
        // at "<!--"
        self.i += 4;
        match self.rest().find("--") {
            Some(e) => {
                if !self.rest()[e..].starts_with("-->") {
                    return self.err("`--` inside a comment");
                }
                if let Some(c) = self.rest()[..e].chars().find(|c| !is_xml_char(*c)) {
                    return self.err(&format!("illegal character U+{:04X} in a comment", c as u32));
                }
                self.i += e + 3;
                Ok(())
            }
            None => self.err("unterminated comment"),
        }
    }
    fn pi(&mut self) -> Result<(), String> {
        match self.rest().find("?>") {
            Some(e) => {
                self.i += e + 2;
                Ok(())
            }
            None => self.err("unterminated processing instruction"),
        }
    }
    fn element(&mut self, depth: usize) -> Result<Node, String> {
        if depth > 200 {
            return self.err("nesting too deep");
        }
        // at '<'
        self.i += 1;
        let name = self.name()?;
        let mut attrs: Vec<String> = vec![];
        loop {
            let had_ws = {
                let b = self.i;
                self.skip_ws();
                self.i > b
            };
            if self.starts("/>") {
                self.i += 2;
                return Ok(Node { name, ..Default::default() });
            }
            if self.starts(">") {
                self.i += 1;
                break;
            }
            if !had_ws {
                return self.err("expected whitespace before an attribute");
            }
            let an = self.name()?;
            if attrs.contains(&an) {
                return self.err("duplicate attribute");
            }
            attrs.push(an);
            self.skip_ws();
            if !self.starts("=") {
                return self.err("expected `=` after the attribute name");
            }
            self.i += 1;
            self.skip_ws();
            let q = match self.rest().chars().next() {
                Some(c @ ('"' | '\'')) => c,
                _ => return self.err("attribute value must be quoted"),
            };
            self.i += 1;
            loop {
                match self.rest().chars().next() {
                    None => return self.err("unterminated attribute value"),
                    Some(c) if c == q => {
                        self.i += 1;
                        break;
                    }
                    Some('<') => return self.err("`<` in an attribute value"),
                    Some('&') => {
                        self.reference()?;
                    }
                    Some(c) if !is_xml_char(c) => return self.err("illegal character in an attribute value"),
                    Some(c) => self.i += c.len_utf8(),
                }
            }
        }
        let mut node = Node { name, ..Default::default() };
        loop {
            if self.i >= self.s.len() {
                return self.err(&format!("element <{}> is never closed", node.name));
            }
            if self.starts("</") {
                self.i += 2;
                let n = self.name()?;
                if n != node.name {
                    return self.err(&format!("closing tag </{}> does not match <{}>", n, node.name));
                }
                self.skip_ws();
                if !self.starts(">") {
                    return self.err("malformed closing tag");
                }
                self.i += 1;
                return Ok(node);
            } else if self.starts("<!--") {
                self.comment()?;
            } else if self.starts("<![CDATA[") {
                self.i += 9;
                match self.rest().find("]]>") {
                    Some(e) => {
                        node.text.push_str(&self.rest()[..e]);
                        self.i += e + 3;
                    }
                    None => return self.err("unterminated CDATA section"),
                }
            } else if self.starts("<?") {
                self.pi()?;
            } else if self.starts("<") {
                let c = self.element(depth + 1)?;
                node.children.push(c);
            } else if self.starts("&") {
                let c = self.reference()?;
                node.text.push(c);
            } else {
                let c = self.rest().chars().next().unwrap();
                if !is_xml_char(c) {
                    return self.err(&format!("illegal character U+{:04X} in character data", c as u32));
                }
                if self.starts("]]>") {
                    return self.err("`]]>` in character data");
                }
                node.text.push(c);
                self.i += c.len_utf8();
            }
        }
    }
}

/// Parse a document; Err(description) when it is not well-formed.
pub fn parse(doc: &str) -> Result<Node, String> {
    let mut p = P { s: doc.as_bytes(), src: doc, i: 0 };
    if p.starts("\u{feff}") {
        p.i += 3;
    }
    let mut root: Option<Node> = None;
    loop {
        p.skip_ws();
        if p.i >= p.s.len() {
            break;
        }
        if p.starts("<?") {
            p.pi()?;
        } else if p.starts("<!--") {
            p.comment()?;
        } else if p.starts("<!DOCTYPE") {
            return p.err("DOCTYPE not supported by this checker");
        } else if p.starts("<") {
            if root.is_some() {
                return p.err("more than one root element");
            }
            root = Some(p.element(0)?);
        } else {
            return p.err("character data outside the root element");
        }
    }
    root.ok_or_else(|| "no root element".to_string())
}

#[cfg(test)]
mod tests {
    use super::parse;
    #[test]
    fn basics() {
        assert!(parse("<a><b>x &amp; y</b><!-- c --><c/></a>").is_ok());
        assert!(parse("<a><b></a>").is_err());
        assert!(parse("<a>x & y</a>").is_err());
        assert!(parse("<a>x < y</a>").is_err());
        assert!(parse("<a></a><b></b>").is_err());
        assert!(parse("<a><!-- a -- b --></a>").is_err());
        assert!(parse("<a>&foo;</a>").is_err());
        assert!(parse("<a b='1' b='2'/>").is_err());
        assert!(parse("<a>\u{1}</a>").is_err());
    }
}
