//! The DHW grammar and the closed-form renewable share of DHW demand (DESIGN C15).

use proptest::collection::vec;
use proptest::prelude::*;
use proptest::sample::select;
use serde::{Deserialize, Serialize};

use crate::dom::*;
use crate::fgen::{triple_pos, FactorCase, LOCS};
use crate::gen::{cents_f32, Building, Kind, Line, Need};
use crate::model::f_match;

#[derive(Clone, Debug, Serialize, Deserialize)]
pub enum Supplier {
    /// direct electric, efficiency 1
    Joule { el: Vec<u32> },
    /// heat pump: electricity + ambient heat = el x (cop - 1); low_scop marks the ambient line with
    /// CTEEPBD_EXCLUYE_SCOP_ACS (its ambient heat is then not counted as renewable)
    /// `split_env = Some(p)`: the ambient heat is declared on two lines with the same tags, p/8 of it marked as
    /// `low_scop` says and the rest marked the other way round (a machine that works part of the time below the
    /// SCOP threshold): the mark belongs to a line, not to a system
    HeatPump { el: Vec<u32>, cop_x10: u32, low_scop: bool, #[serde(default)] split_env: Option<u8> },
    Solar { q: Vec<u32> },
    Red { two: bool, q: Vec<u32> },
    Boiler { fuel: Car, input: Vec<u32>, eta_pct: u32 },
    /// `other`: the same system also burns biomass for heating, with its own SALIDA line (another service's
    /// output under the DHW system's id)
    Biomass { dens: bool, input: Vec<u32>, eta_pct: u32, salida: bool, #[serde(default)] other: Option<Vec<u32>> },
}

/// a cogeneration unit: EL_COGEN production per step (zero at some steps) and one to three fuel inputs,
/// each with its own profile (so there are steps with fuel input and no electricity)
#[derive(Clone, Debug, Serialize, Deserialize)]
pub struct Cogen {
    pub el: Vec<u32>,
    pub fuels: Vec<(Car, Vec<u32>)>,
    /// the unit declares its fuel input but no electricity production (accepted by the library)
    #[serde(default)]
    pub no_prod: bool,
}

#[derive(Clone, Debug, Serialize, Deserialize)]
pub enum DemandMode {
    Consistent,
    Absent,
    Zero,
}

#[derive(Clone, Debug, Serialize, Deserialize)]
pub struct DhwCase {
    pub n: usize,
    pub suppliers: Vec<Supplier>,
    /// auxiliary electricity of the first supplier's system
    pub aux: Option<Vec<u32>>,
    pub pv: Option<Vec<u32>>,
    /// electricity of another service (shares the PV)
    pub other_el: Option<(Srv, Vec<u32>)>,
    /// non-electric consumption of another service
    pub other_nonel: Option<(Srv, Car, Vec<u32>)>,
    pub nepb: Option<(Car, Vec<u32>)>,
    pub red1: Option<[f32; 3]>,
    pub red2: Option<[f32; 3]>,
    pub loc: String,
    pub k: f32,
    pub lm: bool,
    pub demand: DemandMode,
    /// demand split over two DEMANDA lines
    pub split_demand: bool,
    #[serde(default)]
    pub cogen: Option<Cogen>,
}

fn stepvals(n: usize, hi: u32) -> BoxedStrategy<Vec<u32>> {
    vec(prop_oneof![2 => Just(0u32), 1 => Just(1u32), 1 => 1u32..=60, 6 => 1u32..=hi], n)
        .prop_map(|mut v| {
            if v.iter().all(|x| *x == 0) {
                v[0] = 100;
            }
            v
        })
        .boxed()
}

fn supplier(n: usize) -> BoxedStrategy<Supplier> {
    prop_oneof![
        2 => stepvals(n, 100_000).prop_map(|el| Supplier::Joule { el }),
        3 => (stepvals(n, 100_000), 15u32..=60, prop::bool::weighted(0.2), proptest::option::weighted(0.25, 1u8..8)).prop_map(|(el, cop_x10, low_scop, split_env)| Supplier::HeatPump { el, cop_x10, low_scop, split_env }),
        2 => stepvals(n, 100_000).prop_map(|q| Supplier::Solar { q }),
        2 => (any::<bool>(), stepvals(n, 100_000)).prop_map(|(two, q)| Supplier::Red { two, q }),
        2 => (select(vec![Car::GASNATURAL, Car::GASOLEO, Car::GLP, Car::CARBON, Car::BIOCARBURANTE]), stepvals(n, 100_000), 60u32..=105).prop_map(|(fuel, input, eta_pct)| Supplier::Boiler { fuel, input, eta_pct }),
        3 => (any::<bool>(), stepvals(n, 100_000), 60u32..=100, any::<bool>(), proptest::option::weighted(0.35, stepvals(n, 100_000))).prop_map(|(dens, input, eta_pct, salida, other)| Supplier::Biomass { dens, input, eta_pct, salida, other }),
    ]
    .boxed()
}

pub const COGEN_FUELS: [Car; 9] = [Car::GASNATURAL, Car::GASOLEO, Car::GLP, Car::CARBON, Car::BIOCARBURANTE, Car::BIOMASA, Car::BIOMASADENSIFICADA, Car::RED1, Car::RED2];

fn cogen(n: usize) -> BoxedStrategy<Cogen> {
    (stepvals(n, 100_000), vec((select(COGEN_FUELS.to_vec()), stepvals(n, 200_000)), 1..=3), prop::bool::weighted(0.12)).prop_map(|(el, fuels, no_prod)| Cogen { el, fuels, no_prod }).boxed()
}

pub fn dhw_case(max_steps: usize) -> BoxedStrategy<DhwCase> {
    (1usize..=max_steps)
        .prop_flat_map(|n| {
            (
                (
                    Just(n),
                    vec(supplier(n), 1..=4),
                    proptest::option::weighted(0.4, stepvals(n, 20_000)),
                    proptest::option::weighted(0.6, stepvals(n, 300_000)),
                    proptest::option::weighted(0.5, (select(vec![Srv::CAL, Srv::REF, Srv::ILU, Srv::VEN]), stepvals(n, 100_000))),
                    proptest::option::weighted(0.4, (select(vec![Srv::CAL, Srv::REF, Srv::VEN]), select(vec![Car::GASNATURAL, Car::BIOMASA, Car::GASOLEO, Car::RED1, Car::TERMOSOLAR]), stepvals(n, 100_000))),
                    proptest::option::weighted(0.4, (select(vec![Car::ELECTRICIDAD, Car::GASNATURAL, Car::EAMBIENTE]), stepvals(n, 100_000))),
                ),
                (
                    proptest::option::weighted(0.5, triple_pos()),
                    proptest::option::weighted(0.5, triple_pos()),
                    select(LOCS.to_vec()),
                    crate::gen::kexp_s(),
                    any::<bool>(),
                    prop_oneof![9 => Just(DemandMode::Consistent), 1 => Just(DemandMode::Absent), 1 => Just(DemandMode::Zero)],
                    any::<bool>(),
                    proptest::option::weighted(0.3, cogen(n)),
                ),
                // long series: about one case in 40 is tiled to 365 or 8 760 steps
                if crate::common::is_thorough() { prop_oneof![398 => Just(0usize), 1 => Just(365usize), 1 => Just(8760usize)].boxed() } else { prop_oneof![78 => Just(0usize), 1 => Just(365usize), 1 => Just(8760usize)].boxed() },
            )
        })
        .prop_map(|((n, suppliers, aux, pv, other_el, other_nonel, nepb), (red1, red2, loc, k, lm, demand, split_demand, cogen), long)| {
            let mut c = DhwCase { n, suppliers, aux, pv, other_el, other_nonel, nepb, red1, red2, loc: loc.to_string(), k, lm, demand, split_demand, cogen };
            c.tile((long / n).max(1));
            c
        })
        .boxed()
}

impl DhwCase {
    /// every per-step vector repeated r times (the pattern of the generated steps recurs; the length changes)
    pub fn tile(&mut self, r: usize) {
        if r <= 1 {
            return;
        }
        let t = |v: &mut Vec<u32>| *v = v.repeat(r);
        for s in self.suppliers.iter_mut() {
            match s {
                Supplier::Joule { el } | Supplier::HeatPump { el, .. } => t(el),
                Supplier::Solar { q } | Supplier::Red { q, .. } => t(q),
                Supplier::Boiler { input, .. } => t(input),
                Supplier::Biomass { input, other, .. } => {
                    t(input);
                    if let Some(o) = other {
                        t(o);
                    }
                }
            }
        }
        for v in [&mut self.aux, &mut self.pv].into_iter().flatten() {
            t(v);
        }
        if let Some((_, v)) = &mut self.other_el {
            t(v);
        }
        if let Some((_, _, v)) = &mut self.other_nonel {
            t(v);
        }
        if let Some((_, v)) = &mut self.nepb {
            t(v);
        }
        if let Some(cg) = &mut self.cogen {
            t(&mut cg.el);
            for (_, v) in cg.fuels.iter_mut() {
                t(v);
            }
        }
        self.n *= r;
    }
}

fn cv(v: &[u32]) -> Vec<f32> {
    v.iter().map(|c| cents_f32(*c as i64)).collect()
}

impl DhwCase {
    pub fn factors(&self) -> FactorCase {
        FactorCase::Regulatory { loc: self.loc.clone(), red1: self.red1, red2: self.red2 }
    }

    /// useful heat per step (cents, integer arithmetic) of every supplier
    pub fn heat_cents(&self) -> Vec<Vec<i64>> {
        self.suppliers
            .iter()
            .map(|s| match s {
                Supplier::Joule { el } => el.iter().map(|x| *x as i64).collect(),
                Supplier::HeatPump { el, cop_x10, .. } => el.iter().map(|x| *x as i64 + (*x as i64 * (*cop_x10 as i64 - 10) / 10)).collect(),
                Supplier::Solar { q } | Supplier::Red { q, .. } => q.iter().map(|x| *x as i64).collect(),
                Supplier::Boiler { input, eta_pct, .. } | Supplier::Biomass { input, eta_pct, .. } => input.iter().map(|x| *x as i64 * *eta_pct as i64 / 100).collect(),
            })
            .collect()
    }

    pub fn building(&self) -> Building {
        let n = self.n;
        let mut lines = vec![];
        let heat = self.heat_cents();
        let mk = |id: i32, kind: Kind, vals: Vec<f32>, comment: &str| Line { id, kind, vals, comment: comment.to_string() };
        for (i, s) in self.suppliers.iter().enumerate() {
            let id = i as i32 + 1;
            match s {
                Supplier::Joule { el } => lines.push(mk(id, Kind::Used { srv: Srv::ACS, car: Car::ELECTRICIDAD }, cv(el), "")),
                Supplier::HeatPump { el, cop_x10, low_scop, split_env } => {
                    // the manual has both lines of a low-SCOP machine labelled: the label on the electricity line says
                    // nothing about the electricity (it is non-renewable DHW electricity either way)
                    let el_mark = *low_scop && (cop_x10 % 2 == 0);
                    lines.push(mk(id, Kind::Used { srv: Srv::ACS, car: Car::ELECTRICIDAD }, cv(el), if el_mark { "BdC CTEEPBD_EXCLUYE_SCOP_ACS" } else { "" }));
                    let env_c: Vec<i64> = el.iter().map(|x| *x as i64 * (*cop_x10 as i64 - 10) / 10).collect();
                    let marked = |m: bool, alt: bool| if m { "BdC CTEEPBD_EXCLUYE_SCOP_ACS" } else if alt { "BdC" } else { "" };
                    match split_env {
                        None => lines.push(mk(id, Kind::Used { srv: Srv::ACS, car: Car::EAMBIENTE }, env_c.iter().map(|c| cents_f32(*c)).collect(), marked(*low_scop, false))),
                        Some(p) => {
                            let a: Vec<i64> = env_c.iter().map(|c| c * *p as i64 / 8).collect();
                            let b: Vec<i64> = env_c.iter().zip(a.iter()).map(|(c, a)| c - a).collect();
                            lines.push(mk(id, Kind::Used { srv: Srv::ACS, car: Car::EAMBIENTE }, a.iter().map(|c| cents_f32(*c)).collect(), marked(*low_scop, p % 2 == 1)));
                            lines.push(mk(id, Kind::Used { srv: Srv::ACS, car: Car::EAMBIENTE }, b.iter().map(|c| cents_f32(*c)).collect(), marked(!*low_scop, p % 2 == 1)));
                        }
                    }
                }
                Supplier::Solar { q } => lines.push(mk(id, Kind::Used { srv: Srv::ACS, car: Car::TERMOSOLAR }, cv(q), "")),
                Supplier::Red { two, q } => lines.push(mk(id, Kind::Used { srv: Srv::ACS, car: if *two { Car::RED2 } else { Car::RED1 } }, cv(q), "")),
                Supplier::Boiler { fuel, input, .. } => lines.push(mk(id, Kind::Used { srv: Srv::ACS, car: *fuel }, cv(input), "")),
                Supplier::Biomass { dens, input, salida, other, eta_pct } => {
                    let car = if *dens { Car::BIOMASADENSIFICADA } else { Car::BIOMASA };
                    lines.push(mk(id, Kind::Used { srv: Srv::ACS, car }, cv(input), ""));
                    if *salida {
                        lines.push(mk(id, Kind::Out { srv: Srv::ACS }, heat[i].iter().map(|c| cents_f32(*c)).collect(), ""));
                    }
                    // (not on the system that carries the auxiliaries: they would be shared with the heating service)
                    if let (Some(o), true) = (other, i > 0 || self.aux.is_none()) {
                        lines.push(mk(id, Kind::Used { srv: Srv::CAL, car }, cv(o), ""));
                        lines.push(mk(id, Kind::Out { srv: Srv::CAL }, o.iter().map(|x| cents_f32(*x as i64 * *eta_pct as i64 / 100)).collect(), ""));
                    }
                }
            }
        }
        if let Some(a) = &self.aux {
            lines.push(mk(1, Kind::Aux, cv(a), ""));
        }
        if let Some(p) = &self.pv {
            lines.push(mk(20, Kind::Prod { src: Src::EL_INSITU }, cv(p), ""));
        }
        if let Some((srv, v)) = &self.other_el {
            lines.push(mk(21, Kind::Used { srv: *srv, car: Car::ELECTRICIDAD }, cv(v), ""));
        }
        if let Some((srv, car, v)) = &self.other_nonel {
            lines.push(mk(22, Kind::Used { srv: *srv, car: *car }, cv(v), ""));
        }
        if let Some((car, v)) = &self.nepb {
            lines.push(mk(23, Kind::Used { srv: Srv::NEPB, car: *car }, cv(v), ""));
        }
        if let Some(cg) = &self.cogen {
            if !cg.no_prod {
                lines.push(mk(30, Kind::Prod { src: Src::EL_COGEN }, cv(&cg.el), ""));
            }
            for (car, v) in &cg.fuels {
                lines.push(mk(30, Kind::Used { srv: Srv::COGEN, car: *car }, cv(v), ""));
            }
        }
        let mut needs = vec![];
        match self.demand {
            DemandMode::Absent => {}
            DemandMode::Zero => needs.push(Need { srv: Srv::ACS, vals: vec![0.0; n] }),
            DemandMode::Consistent => {
                let tot: Vec<i64> = (0..n).map(|t| heat.iter().map(|h| h[t]).sum()).collect();
                if self.split_demand {
                    let a: Vec<i64> = tot.iter().map(|x| x / 3).collect();
                    let b: Vec<i64> = tot.iter().zip(a.iter()).map(|(x, a)| x - a).collect();
                    needs.push(Need { srv: Srv::ACS, vals: a.iter().map(|c| cents_f32(*c)).collect() });
                    needs.push(Need { srv: Srv::ACS, vals: b.iter().map(|c| cents_f32(*c)).collect() });
                } else {
                    needs.push(Need { srv: Srv::ACS, vals: tot.iter().map(|c| cents_f32(*c)).collect() });
                }
            }
        }
        Building { n, meta: vec![], needs, lines, tags: vec![] }
    }

    fn ren_share(&self, car: Car) -> f64 {
        let user = |t: &Option<[f32; 3]>| t.map(|a| a[0] as f64 / (a[0] as f64 + a[1] as f64)).unwrap_or(0.0 / 1.3);
        match car {
            Car::EAMBIENTE | Car::TERMOSOLAR => 1.0,
            Car::RED1 => user(&self.red1),
            Car::RED2 => user(&self.red2),
            Car::BIOMASA => 1.003f32 as f64 / (1.003f32 as f64 + 0.034f32 as f64),
            Car::BIOMASADENSIFICADA => 1.028f32 as f64 / (1.028f32 as f64 + 0.085f32 as f64),
            _ => 0.0,
        }
    }

    /// step A (ren, nren) of a fuel delivered by the grid, from the recognised document (RITE 2014)
    fn fuel_factor(&self, car: Car) -> (f64, f64) {
        let u = |t: &Option<[f32; 3]>| t.map(|a| (a[0] as f64, a[1] as f64)).unwrap_or((0.0, 1.3f32 as f64));
        let f = |a: f32, b: f32| (a as f64, b as f64);
        match car {
            Car::GASNATURAL => f(0.005, 1.190),
            Car::GASOLEO => f(0.003, 1.179),
            Car::GLP => f(0.003, 1.201),
            Car::CARBON => f(0.002, 1.082),
            Car::BIOCARBURANTE | Car::BIOMASADENSIFICADA => f(1.028, 0.085),
            Car::BIOMASA => f(1.003, 0.034),
            Car::RED1 => u(&self.red1),
            Car::RED2 => u(&self.red2),
            _ => (0.0, 0.0),
        }
    }

    /// Closed-form value: Ok(fraction) or Err(class) for the documented non-computable classes.
    pub fn expected(&self) -> Result<f64, &'static str> {
        let n = self.n;
        let heat = self.heat_cents();
        match self.demand {
            DemandMode::Absent => return Err("no_demand"),
            DemandMode::Zero => return Err("zero_demand"),
            DemandMode::Consistent => {}
        }
        let d: f64 = heat.iter().map(|h| h.iter().sum::<i64>() as f64).sum::<f64>() / 100.0;
        if d <= 0.0 {
            return Err("zero_demand");
        }
        let c = |v: &Vec<u32>| v.iter().map(|x| *x as f64).sum::<f64>() / 100.0;
        // nearby non-biomass carriers: consumption == demand covered, renewable by factor share
        let mut q_ren = 0.0;
        let mut nearby_non_bio_tot = 0.0;
        let mut has_non_nearby = false;
        let mut bio_types = std::collections::BTreeSet::new();
        let mut bio_all_salida = true;
        let mut bio_salida_ren = 0.0;
        for (i, s) in self.suppliers.iter().enumerate() {
            match s {
                Supplier::Joule { .. } => has_non_nearby = true,
                Supplier::HeatPump { el, cop_x10, low_scop, split_env } => {
                    has_non_nearby = true;
                    // the ambient heat on lines without the low-SCOP mark
                    let env: f64 = el
                        .iter()
                        .map(|x| {
                            let c = *x as i64 * (*cop_x10 as i64 - 10) / 10;
                            let a = match split_env {
                                None => c,
                                Some(p) => c * *p as i64 / 8,
                            };
                            (if *low_scop { c - a } else { a }) as f64
                        })
                        .sum::<f64>()
                        / 100.0;
                    q_ren += env;
                    nearby_non_bio_tot += env;
                }
                Supplier::Solar { q } => {
                    q_ren += c(q);
                    nearby_non_bio_tot += c(q);
                }
                Supplier::Red { two, q } => {
                    q_ren += c(q) * self.ren_share(if *two { Car::RED2 } else { Car::RED1 });
                    nearby_non_bio_tot += c(q);
                }
                Supplier::Boiler { .. } => has_non_nearby = true,
                Supplier::Biomass { dens, salida, .. } => {
                    let car = if *dens { Car::BIOMASADENSIFICADA } else { Car::BIOMASA };
                    bio_types.insert(car);
                    if *salida {
                        bio_salida_ren += heat[i].iter().sum::<i64>() as f64 / 100.0 * self.ren_share(car);
                    } else {
                        bio_all_salida = false;
                    }
                }
            }
        }
        if !bio_types.is_empty() {
            if bio_types.len() == 1 && !has_non_nearby {
                // all the demand not covered by the other nearby carriers is covered by the biomass
                let car = *bio_types.iter().next().unwrap();
                q_ren += (d - nearby_non_bio_tot) * self.ren_share(car);
            } else if bio_all_salida {
                q_ren += bio_salida_ren;
            } else {
                return Err("biomass_without_output");
            }
        }
        // on-site and cogenerated electricity used for DHW (incl. auxiliaries), net of the auxiliary share
        if self.pv.is_some() || self.cogen.as_ref().map(|cg| !cg.no_prod).unwrap_or(false) {
            let mut el_acs = vec![0.0f64; n];
            let mut el_all = vec![0.0f64; n];
            for s in &self.suppliers {
                if let Supplier::Joule { el } | Supplier::HeatPump { el, .. } = s {
                    for t in 0..n {
                        el_acs[t] += el[t] as f64 / 100.0;
                    }
                }
            }
            let el_acs_no_aux_an: f64 = el_acs.iter().sum();
            let aux_an = self.aux.as_ref().map(|a| c(a)).unwrap_or(0.0);
            if let Some(a) = &self.aux {
                for t in 0..n {
                    el_acs[t] += a[t] as f64 / 100.0;
                }
            }
            for t in 0..n {
                el_all[t] = el_acs[t] + self.other_el.as_ref().map(|(_, v)| v[t] as f64 / 100.0).unwrap_or(0.0);
            }
            let el_acs_an: f64 = el_acs.iter().sum();
            let (mut pv_acs, mut chp_acs) = (0.0, 0.0);
            for t in 0..n {
                let p = self.pv.as_ref().map(|v| v[t] as f64 / 100.0).unwrap_or(0.0);
                let g = self.cogen.as_ref().filter(|cg| !cg.no_prod).map(|cg| cg.el[t] as f64 / 100.0).unwrap_or(0.0);
                if el_all[t] > 0.0 && p + g > 0.0 {
                    let f = f_match(p + g, el_all[t], self.lm);
                    // on-site electricity first, cogenerated electricity on what is left of the use
                    let upv = p.min(el_all[t]);
                    let uchp = g.min(el_all[t] - upv);
                    pv_acs += f * upv * el_acs[t] / el_all[t];
                    chp_acs += f * uchp * el_acs[t] / el_all[t];
                }
            }
            let non_aux = if el_acs_an > 0.0 { 1.0 - aux_an / el_acs_an } else { 1.0 };
            q_ren += pv_acs * non_aux;
            // cogenerated electricity counts in the share that nearby fuels have in the primary energy of its inputs
            if let Some(cg) = self.cogen.as_ref().filter(|cg| !cg.no_prod) {
                let any_nearby = cg.fuels.iter().any(|(car, _)| matches!(car, Car::BIOMASA | Car::BIOMASADENSIFICADA | Car::RED1 | Car::RED2));
                if el_acs_no_aux_an > 0.0 && chp_acs > 0.0 && any_nearby {
                    let (mut ren_nearby, mut tot) = (0.0, 0.0);
                    for (car, v) in &cg.fuels {
                        let (r, nr) = self.fuel_factor(*car);
                        tot += c(v) * (r + nr);
                        if matches!(car, Car::BIOMASA | Car::BIOMASADENSIFICADA | Car::RED1 | Car::RED2) {
                            ren_nearby += c(v) * r;
                        }
                    }
                    if tot > 0.0 {
                        q_ren += chp_acs * non_aux * ren_nearby / tot;
                    }
                }
            }
        }
        Ok(q_ren / d)
    }

    pub fn n_suppliers(&self) -> usize {
        self.suppliers.len()
    }
    pub fn has_biomass(&self) -> bool {
        self.suppliers.iter().any(|s| matches!(s, Supplier::Biomass { .. }))
    }
}
