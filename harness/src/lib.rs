#![allow(dead_code)]
//! vcheck as a library: the binary (`src/main.rs`) and the coverage-guided fuzz target of engine E4
//! (`/verif/fuzz/fuzz_targets/fz_prop.rs`) both link against it.

pub mod clidrv;
pub mod common;
pub mod dhw;
pub mod dom;
pub mod engine;
pub mod fgen;
pub mod flat;
pub mod gen;
pub mod layout;
pub mod model;
pub mod props;
pub mod registry;
pub mod semfuzz;
pub mod tol;
pub mod xform;
pub mod xmlcheck;
