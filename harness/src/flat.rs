//! The flat result view (DESIGN 3.3): every numeric field of an `EnergyPerformance`, read from the
//! struct, as path -> values, with the kind of quantity each one is.

use std::collections::{BTreeMap, HashMap};

use cteepbd::types::{
    Balance, BalanceCarrier, Carrier, EnergyPerformance, ProdSource, RenNrenCo2, Service,
};

use crate::dom::*;

#[derive(Clone, Copy, PartialEq, Eq, Debug)]
pub enum EK {
    /// annual energy [kWh]
    Energy,
    /// per-step energy vector [kWh]
    StepVec,
    /// weighted energy triple (ren, nren, co2)
    Weighted,
    /// dimensionless ratio (RER*)
    Ratio,
    /// per-step dimensionless vector (f_match)
    RatioVec,
    /// echoed parameter (k_exp, arearef)
    Param,
    /// annual building need (DEMANDA), a sum of its own inputs only
    Need,
}

#[derive(Clone, Debug)]
pub struct Entry {
    pub vals: Vec<f64>,
    pub kind: EK,
    /// carrier the quantity belongs to (None = whole building)
    pub car: Option<Car>,
    /// per-m2 figure
    pub m2: bool,
    /// map entry that the library only creates when the value is non-zero
    pub sparse: bool,
}

pub type Flat = BTreeMap<String, Entry>;

pub fn put(f: &mut Flat, path: String, vals: Vec<f64>, kind: EK, car: Option<Car>, m2: bool, sparse: bool) {
    f.insert(path, Entry { vals, kind, car, m2, sparse });
}

fn v32(v: &[f32]) -> Vec<f64> {
    v.iter().map(|x| *x as f64).collect()
}
fn r3(r: &RenNrenCo2) -> Vec<f64> {
    vec![r.ren as f64, r.nren as f64, r.co2 as f64]
}
fn sname(s: &Service) -> &'static str {
    Srv::from_lib(*s).name()
}
fn cname(c: &Carrier) -> &'static str {
    Car::from_lib(*c).name()
}
fn pname(p: &ProdSource) -> &'static str {
    Src::from_lib(*p).name()
}

fn flat_carrier(f: &mut Flat, b: &BalanceCarrier) {
    let car = Car::from_lib(b.carrier);
    let c = Some(car);
    let p = format!("cr.{}.", car.name());
    put(f, format!("{p}f_match"), v32(&b.f_match), EK::RatioVec, c, false, false);
    // used
    put(f, format!("{p}used.epus_t"), v32(&b.used.epus_t), EK::StepVec, c, false, false);
    for (s, v) in &b.used.epus_by_srv_t {
        put(f, format!("{p}used.epus_by_srv_t.{}", sname(s)), v32(v), EK::StepVec, c, false, false);
    }
    put(f, format!("{p}used.epus_an"), vec![b.used.epus_an as f64], EK::Energy, c, false, false);
    for (s, v) in &b.used.epus_by_srv_an {
        put(f, format!("{p}used.epus_by_srv_an.{}", sname(s)), vec![*v as f64], EK::Energy, c, false, false);
    }
    put(f, format!("{p}used.nepus_t"), v32(&b.used.nepus_t), EK::StepVec, c, false, false);
    put(f, format!("{p}used.nepus_an"), vec![b.used.nepus_an as f64], EK::Energy, c, false, false);
    put(f, format!("{p}used.cgnus_t"), v32(&b.used.cgnus_t), EK::StepVec, c, false, false);
    put(f, format!("{p}used.cgnus_an"), vec![b.used.cgnus_an as f64], EK::Energy, c, false, false);
    // prod
    put(f, format!("{p}prod.t"), v32(&b.prod.t), EK::StepVec, c, false, false);
    put(f, format!("{p}prod.an"), vec![b.prod.an as f64], EK::Energy, c, false, false);
    for (s, v) in &b.prod.by_src_t {
        put(f, format!("{p}prod.by_src_t.{}", pname(s)), v32(v), EK::StepVec, c, false, false);
    }
    for (s, v) in &b.prod.by_src_an {
        put(f, format!("{p}prod.by_src_an.{}", pname(s)), vec![*v as f64], EK::Energy, c, false, false);
    }
    put(f, format!("{p}prod.epus_t"), v32(&b.prod.epus_t), EK::StepVec, c, false, false);
    put(f, format!("{p}prod.epus_an"), vec![b.prod.epus_an as f64], EK::Energy, c, false, false);
    for (s, v) in &b.prod.epus_by_src_t {
        put(f, format!("{p}prod.epus_by_src_t.{}", pname(s)), v32(v), EK::StepVec, c, false, false);
    }
    for (s, v) in &b.prod.epus_by_src_an {
        put(f, format!("{p}prod.epus_by_src_an.{}", pname(s)), vec![*v as f64], EK::Energy, c, false, false);
    }
    for (s, m) in &b.prod.epus_by_srv_by_src_t {
        for (sv, v) in m {
            put(f, format!("{p}prod.epus_by_srv_by_src_t.{}.{}", pname(s), sname(sv)), v32(v), EK::StepVec, c, false, false);
        }
    }
    for (s, m) in &b.prod.epus_by_srv_by_src_an {
        for (sv, v) in m {
            put(f, format!("{p}prod.epus_by_srv_by_src_an.{}.{}", pname(s), sname(sv)), vec![*v as f64], EK::Energy, c, false, false);
        }
    }
    // exp
    put(f, format!("{p}exp.t"), v32(&b.exp.t), EK::StepVec, c, false, false);
    put(f, format!("{p}exp.an"), vec![b.exp.an as f64], EK::Energy, c, false, false);
    put(f, format!("{p}exp.grid_t"), v32(&b.exp.grid_t), EK::StepVec, c, false, false);
    put(f, format!("{p}exp.grid_an"), vec![b.exp.grid_an as f64], EK::Energy, c, false, false);
    put(f, format!("{p}exp.nepus_t"), v32(&b.exp.nepus_t), EK::StepVec, c, false, false);
    put(f, format!("{p}exp.nepus_an"), vec![b.exp.nepus_an as f64], EK::Energy, c, false, false);
    for (s, v) in &b.exp.by_src_t {
        put(f, format!("{p}exp.by_src_t.{}", pname(s)), v32(v), EK::StepVec, c, false, false);
    }
    for (s, v) in &b.exp.by_src_an {
        put(f, format!("{p}exp.by_src_an.{}", pname(s)), vec![*v as f64], EK::Energy, c, false, false);
    }
    // del
    put(f, format!("{p}del.an"), vec![b.del.an as f64], EK::Energy, c, false, false);
    put(f, format!("{p}del.grid_t"), v32(&b.del.grid_t), EK::StepVec, c, false, false);
    put(f, format!("{p}del.grid_an"), vec![b.del.grid_an as f64], EK::Energy, c, false, false);
    put(f, format!("{p}del.onst_t"), v32(&b.del.onst_t), EK::StepVec, c, false, false);
    put(f, format!("{p}del.onst_an"), vec![b.del.onst_an as f64], EK::Energy, c, false, false);
    put(f, format!("{p}del.cgn_t"), v32(&b.del.cgn_t), EK::StepVec, c, false, false);
    put(f, format!("{p}del.cgn_an"), vec![b.del.cgn_an as f64], EK::Energy, c, false, false);
    // we
    let w = &b.we;
    for (name, r) in [
        ("b", &w.b),
        ("a", &w.a),
        ("del", &w.del),
        ("del_grid", &w.del_grid),
        ("del_onst", &w.del_onst),
        ("del_cgn", &w.del_cgn),
        ("exp", &w.exp),
        ("exp_a", &w.exp_a),
        ("exp_nepus_a", &w.exp_nepus_a),
        ("exp_grid_a", &w.exp_grid_a),
        ("exp_nepus_ab", &w.exp_nepus_ab),
        ("exp_grid_ab", &w.exp_grid_ab),
        ("exp_ab", &w.exp_ab),
    ] {
        put(f, format!("{p}we.{name}"), r3(r), EK::Weighted, c, false, false);
    }
    for (s, r) in &w.b_by_srv {
        put(f, format!("{p}we.b_by_srv.{}", sname(s)), r3(r), EK::Weighted, c, false, false);
    }
    for (s, r) in &w.a_by_srv {
        put(f, format!("{p}we.a_by_srv.{}", sname(s)), r3(r), EK::Weighted, c, false, false);
    }
}

fn flat_map_srv(f: &mut Flat, p: &str, m: &HashMap<Service, f32>, m2: bool) {
    for (s, v) in m {
        put(f, format!("{p}.{}", sname(s)), vec![*v as f64], EK::Energy, None, m2, false);
    }
}

fn flat_balance(f: &mut Flat, prefix: &str, b: &Balance, m2: bool) {
    let p = prefix;
    if let Some(v) = b.needs.ACS {
        put(f, format!("{p}.needs.ACS"), vec![v as f64], EK::Need, None, m2, false);
    }
    if let Some(v) = b.needs.CAL {
        put(f, format!("{p}.needs.CAL"), vec![v as f64], EK::Need, None, m2, false);
    }
    if let Some(v) = b.needs.REF {
        put(f, format!("{p}.needs.REF"), vec![v as f64], EK::Need, None, m2, false);
    }
    put(f, format!("{p}.used.nepus"), vec![b.used.nepus as f64], EK::Energy, None, m2, false);
    put(f, format!("{p}.used.epus"), vec![b.used.epus as f64], EK::Energy, None, m2, false);
    put(f, format!("{p}.used.cgnus"), vec![b.used.cgnus as f64], EK::Energy, None, m2, false);
    flat_map_srv(f, &format!("{p}.used.epus_by_srv"), &b.used.epus_by_srv, m2);
    for (c, v) in &b.used.epus_by_cr {
        put(f, format!("{p}.used.epus_by_cr.{}", cname(c)), vec![*v as f64], EK::Energy, Some(Car::from_lib(*c)), m2, true);
    }
    for (s, m) in &b.used.epus_by_cr_by_srv {
        for (c, v) in m {
            put(f, format!("{p}.used.epus_by_cr_by_srv.{}.{}", sname(s), cname(c)), vec![*v as f64], EK::Energy, Some(Car::from_lib(*c)), m2, false);
        }
    }
    put(f, format!("{p}.prod.an"), vec![b.prod.an as f64], EK::Energy, None, m2, false);
    for (c, v) in &b.prod.by_cr {
        put(f, format!("{p}.prod.by_cr.{}", cname(c)), vec![*v as f64], EK::Energy, Some(Car::from_lib(*c)), m2, true);
    }
    for (s, v) in &b.prod.by_src {
        put(f, format!("{p}.prod.by_src.{}", pname(s)), vec![*v as f64], EK::Energy, Some(Src::from_lib(*s).carrier()), m2, false);
    }
    for (s, v) in &b.prod.epus_by_src {
        put(f, format!("{p}.prod.epus_by_src.{}", pname(s)), vec![*v as f64], EK::Energy, Some(Src::from_lib(*s).carrier()), m2, false);
    }
    for (s, m) in &b.prod.epus_by_srv_by_src {
        for (sv, v) in m {
            put(f, format!("{p}.prod.epus_by_srv_by_src.{}.{}", pname(s), sname(sv)), vec![*v as f64], EK::Energy, Some(Src::from_lib(*s).carrier()), m2, false);
        }
    }
    put(f, format!("{p}.del.an"), vec![b.del.an as f64], EK::Energy, None, m2, false);
    put(f, format!("{p}.del.onst"), vec![b.del.onst as f64], EK::Energy, None, m2, false);
    put(f, format!("{p}.del.grid"), vec![b.del.grid as f64], EK::Energy, None, m2, false);
    for (c, v) in &b.del.grid_by_cr {
        put(f, format!("{p}.del.grid_by_cr.{}", cname(c)), vec![*v as f64], EK::Energy, Some(Car::from_lib(*c)), m2, true);
    }
    put(f, format!("{p}.exp.an"), vec![b.exp.an as f64], EK::Energy, None, m2, false);
    put(f, format!("{p}.exp.grid"), vec![b.exp.grid as f64], EK::Energy, None, m2, false);
    put(f, format!("{p}.exp.nepus"), vec![b.exp.nepus as f64], EK::Energy, None, m2, false);
    put(f, format!("{p}.we.a"), r3(&b.we.a), EK::Weighted, None, m2, false);
    put(f, format!("{p}.we.b"), r3(&b.we.b), EK::Weighted, None, m2, false);
    put(f, format!("{p}.we.del"), r3(&b.we.del), EK::Weighted, None, m2, false);
    put(f, format!("{p}.we.exp_a"), r3(&b.we.exp_a), EK::Weighted, None, m2, false);
    put(f, format!("{p}.we.exp"), r3(&b.we.exp), EK::Weighted, None, m2, false);
    for (s, r) in &b.we.a_by_srv {
        put(f, format!("{p}.we.a_by_srv.{}", sname(s)), r3(r), EK::Weighted, None, m2, false);
    }
    for (s, r) in &b.we.b_by_srv {
        put(f, format!("{p}.we.b_by_srv.{}", sname(s)), r3(r), EK::Weighted, None, m2, false);
    }
}

/// Every numeric field of the result.
pub fn flat(ep: &EnergyPerformance) -> Flat {
    let mut f = Flat::new();
    for b in ep.balance_cr.values() {
        flat_carrier(&mut f, b);
    }
    flat_balance(&mut f, "bal", &ep.balance, false);
    flat_balance(&mut f, "m2", &ep.balance_m2, true);
    put(&mut f, "rer".into(), vec![ep.rer as f64], EK::Ratio, None, false, false);
    put(&mut f, "rer_nrb".into(), vec![ep.rer_nrb as f64], EK::Ratio, None, false, false);
    put(&mut f, "rer_onst".into(), vec![ep.rer_onst as f64], EK::Ratio, None, false, false);
    put(&mut f, "k_exp".into(), vec![ep.k_exp as f64], EK::Param, None, false, false);
    put(&mut f, "arearef".into(), vec![ep.arearef as f64], EK::Param, None, false, false);
    f
}

/// Consistency of the map keys with the carrier field (a `balance_cr` entry filed under the wrong key)
pub fn carrier_keys_ok(ep: &EnergyPerformance) -> bool {
    ep.balance_cr.iter().all(|(k, v)| *k == v.carrier)
}

// ---------------------------------------------------------------------------------------------
// generic JSON walk (net under fields the hand-written view might lack)

pub fn json_numeric_leaves(v: &serde_json::Value, prefix: &str, out: &mut BTreeMap<String, f64>) {
    match v {
        serde_json::Value::Number(n) => {
            out.insert(prefix.to_string(), n.as_f64().unwrap_or(f64::NAN));
        }
        serde_json::Value::Array(a) => {
            for (i, x) in a.iter().enumerate() {
                json_numeric_leaves(x, &format!("{}[{}]", prefix, i), out);
            }
        }
        serde_json::Value::Object(m) => {
            for (k, x) in m {
                let p = if prefix.is_empty() { k.clone() } else { format!("{}.{}", prefix, k) };
                json_numeric_leaves(x, &p, out);
            }
        }
        _ => {}
    }
}

/// number of numeric leaves under balance / balance_m2 / balance_cr in the JSON form
pub fn json_result_leaf_count(ep: &EnergyPerformance) -> usize {
    let v = serde_json::to_value(ep).unwrap();
    let mut out = BTreeMap::new();
    for k in ["balance", "balance_m2", "balance_cr", "rer", "rer_nrb", "rer_onst", "k_exp", "arearef"] {
        if let Some(x) = v.get(k) {
            json_numeric_leaves(x, k, &mut out);
        }
    }
    out.len()
}

/// number of scalar values in the hand-written flat view
pub fn flat_leaf_count(f: &Flat) -> usize {
    f.values().map(|e| e.vals.len()).sum()
}
