//! Representational choices of a components file (DESIGN 3.1 `render(building, layout)`) and the
//! meaning-preserving rewritings used by C10.

use proptest::collection::vec;
use proptest::prelude::*;
use proptest::sample::select;
use serde::{Deserialize, Serialize};

use crate::gen::{cents_f32, vals_text, Building, Kind, Line};

#[derive(Clone, Debug, Serialize, Deserialize, Default)]
pub struct Layout {
    /// sort keys for the data lines (empty = keep order)
    pub order: Vec<u16>,
    /// write lines of system 0 without the id (legacy format); never for SALIDA (id is mandatory there)
    pub omit_id0: bool,
    /// 0 = "a,b"  1 = "a, b"  2 = " a ,\tb "
    pub spacing: u8,
    pub leading_ws: bool,
    pub trailing_ws: bool,
    /// insert a blank line after every k-th line
    pub blank_every: Option<u8>,
    /// `#` comment lines: (position key, text)
    pub comment_lines: Vec<(u8, String)>,
    pub header: bool,
    pub bom: bool,
    pub crlf: bool,
    /// add an (ignored) trailing comment to lines that have none
    pub trailing_comments: bool,
    /// demands after the components instead of before
    pub needs_last: bool,
    /// metadata lines interleaved after the first data line instead of on top
    pub meta_inside: bool,
}

pub fn layout_s() -> BoxedStrategy<Layout> {
    (
        (
            prop_oneof![1 => Just(vec![]), 2 => vec(any::<u16>(), 48)],
            any::<bool>(),
            0u8..3,
            any::<bool>(),
            any::<bool>(),
            proptest::option::of(1u8..4),
        ),
        (
            vec((any::<u8>(), select(vec!["", " comentario", "vector no", "#", " 1, CONSUMO, ACS, GASNATURAL, 99", " METADATOS del edificio", " DEMANDA"])), 0..4),
            any::<bool>(),
            any::<bool>(),
            any::<bool>(),
            any::<bool>(),
            any::<bool>(),
            any::<bool>(),
        ),
    )
        .prop_map(|((order, omit_id0, spacing, leading_ws, trailing_ws, blank_every), (cl, header, bom, crlf, trailing_comments, needs_last, meta_inside))| Layout {
            order,
            omit_id0,
            spacing,
            leading_ws,
            trailing_ws,
            blank_every,
            comment_lines: cl.into_iter().map(|(p, s)| (p, s.to_string())).collect(),
            header,
            bom,
            crlf,
            trailing_comments,
            needs_last,
            meta_inside,
        })
        .boxed()
}

fn join(fields: &[String], spacing: u8) -> String {
    match spacing {
        0 => fields.join(","),
        1 => fields.join(", "),
        _ => fields.iter().map(|f| format!(" {} ", f)).collect::<Vec<_>>().join(",\t"),
    }
}

pub fn render_line(l: &Line, lay: &Layout) -> String {
    let mut f: Vec<String> = vec![];
    let is_out = matches!(l.kind, Kind::Out { .. });
    if !(lay.omit_id0 && l.id == 0 && !is_out) {
        f.push(l.id.to_string());
    }
    match &l.kind {
        Kind::Used { srv, car } => {
            f.push("CONSUMO".into());
            f.push(srv.name().into());
            f.push(car.name().into());
        }
        Kind::Prod { src } => {
            f.push("PRODUCCION".into());
            f.push(src.name().into());
        }
        Kind::Aux => f.push("AUX".into()),
        Kind::Out { srv } => {
            f.push("SALIDA".into());
            f.push(srv.name().into());
        }
    }
    for v in &l.vals {
        f.push(crate::gen::f32_text(*v));
    }
    let mut s = join(&f, lay.spacing);
    if !l.comment.is_empty() {
        s.push_str(&format!("{}#{}{}", if lay.spacing == 0 { "" } else { " " }, if lay.spacing == 2 { "  " } else { " " }, l.comment));
    }
    s
}

pub fn render_layout(b: &Building, lay: &Layout) -> String {
    let mut data: Vec<(u16, String)> = b
        .lines
        .iter()
        .enumerate()
        .map(|(i, l)| (if lay.order.is_empty() { i as u16 } else { lay.order[i % lay.order.len()] }, render_line(l, lay)))
        .collect();
    if !lay.order.is_empty() {
        data.sort_by_key(|(k, _)| *k);
    }
    let needs: Vec<String> = b
        .needs
        .iter()
        .map(|n| {
            let mut f = vec!["DEMANDA".to_string(), n.srv.name().to_string()];
            for v in &n.vals {
                f.push(crate::gen::f32_text(*v));
            }
            join(&f, lay.spacing)
        })
        .collect();
    let metas: Vec<String> = b.meta.iter().map(|(k, v)| format!("#META {}: {}", k, v)).collect();
    let mut out: Vec<String> = vec![];
    if lay.header {
        out.push("vector,tipo,src_dst,paso1,paso2".into());
    }
    if !lay.meta_inside {
        out.extend(metas.iter().cloned());
    }
    if !lay.needs_last {
        out.extend(needs.iter().cloned());
    }
    for (i, (_, l)) in data.iter().enumerate() {
        out.push(l.clone());
        if i == 0 && lay.meta_inside {
            out.extend(metas.iter().cloned());
        }
        if let Some(k) = lay.blank_every {
            if (i + 1) % (k as usize) == 0 {
                out.push(String::new());
            }
        }
    }
    if data.is_empty() && lay.meta_inside {
        out.extend(metas.iter().cloned());
    }
    if lay.needs_last {
        out.extend(needs.iter().cloned());
    }
    for (p, t) in &lay.comment_lines {
        let pos = (*p as usize * (out.len() + 1)) >> 8;
        out.insert(pos.min(out.len()), format!("#{}", t));
    }
    let out: Vec<String> = out
        .into_iter()
        .map(|l| {
            let mut s = l;
            if lay.leading_ws && !s.is_empty() {
                s = format!("  \t{}", s);
            }
            if lay.trailing_ws {
                s.push_str("  ");
            }
            s
        })
        .collect();
    let nl = if lay.crlf { "\r\n" } else { "\n" };
    let mut s = out.join(nl);
    if lay.crlf {
        s.push_str(nl);
    }
    if lay.bom {
        s = format!("\u{feff}{}", s);
    }
    s
}

// ---------------------------------------------------------------------------------------------
// structural rewritings (meaning preserving)

#[derive(Clone, Debug, Serialize, Deserialize)]
pub enum Rewrite {
    /// split line `idx` into 2 or 3 lines whose hundredths add up to the original
    Split { idx: u8, parts: u8, cut1: u16, cut2: u16 },
    /// bijective renumbering of system ids: id -> pool[(position of id + shift) mod len]
    Renumber { shift: u8 },
}

pub fn rewrite_s() -> BoxedStrategy<Rewrite> {
    prop_oneof![
        3 => (any::<u8>(), 2u8..=3, any::<u16>(), any::<u16>()).prop_map(|(idx, parts, cut1, cut2)| Rewrite::Split { idx, parts, cut1, cut2 }),
        1 => (1u8..8).prop_map(|shift| Rewrite::Renumber { shift }),
    ]
    .boxed()
}

// (small ids, negative ids, and ids beyond 2^24 - not representable in an f32 - up to the ends of i32)
const RENUM_POOL: [i32; 18] = [0, 1, 2, 3, 7, -1, -2, 12, 5, 40, 99, -7, 16_777_217, 16_777_216, 1_000_000_001, i32::MAX, i32::MIN, -16_777_217];

/// the id mapping of a Renumber rewriting (identity for ids outside the pool)
pub fn renumber_id(id: i32, shift: u8) -> i32 {
    match RENUM_POOL.iter().position(|x| *x == id) {
        Some(p) => RENUM_POOL[(p + shift as usize) % RENUM_POOL.len()],
        None => id,
    }
}

pub fn apply_rewrite(b: &Building, r: &Rewrite) -> Building {
    let mut o = b.clone();
    match r {
        Rewrite::Renumber { shift } => {
            for l in &mut o.lines {
                l.id = renumber_id(l.id, *shift);
            }
        }
        Rewrite::Split { idx, parts, cut1, cut2 } => {
            if o.lines.is_empty() {
                return o;
            }
            let i = (*idx as usize * o.lines.len()) >> 8;
            let l = o.lines[i].clone();
            // hundredths of each value (exact for the generator's values below 2^24 cents)
            let cents: Vec<i64> = l.vals.iter().map(|v| (*v as f64 * 100.0).round() as i64).collect();
            if cents.iter().zip(l.vals.iter()).any(|(c, v)| cents_f32(*c) != *v) {
                return o; // a value that is not a whole number of hundredths: leave the line alone
            }
            let frac = |c: i64, cut: u16| -> i64 { ((c.unsigned_abs() as u128 * cut as u128) >> 16) as i64 * c.signum() };
            // SALIDA may carry both signs, so its pieces only have to add up: with an odd cut2 the
            // first piece overshoots and the second compensates with the opposite sign (the overshoot is at most the
            // value itself: pieces hundreds of times larger than their sum would make the f32 sum of the service's
            // output a cancellation residue, and the auxiliary split with it - rounding, not layout)
            // (not when the lines of that system and service cancel exactly at some step - e.g. 0.03 and -0.03: pieces
            // of other magnitudes would leave an f32 residue where the summed output is zero, and a step with zero output
            // is where the auxiliary split is undefined, C06)
            let cancels = match &l.kind {
                Kind::Out { srv } => (0..cents.len()).any(|t| {
                    cents[t] != 0
                        && o.lines.iter().filter(|x| x.id == l.id && matches!(&x.kind, Kind::Out { srv: s2 } if s2 == srv)).map(|x| (x.vals[t] as f64 * 100.0).round() as i64).sum::<i64>() == 0
                }),
                _ => false,
            };
            let mixed = matches!(l.kind, Kind::Out { .. }) && (*cut2 & 1 == 1) && !cancels;
            // (zeros are left as zeros: pieces that cancel to zero would leave an f32 residue and a
            // step with zero output is where the auxiliary split is undefined, C06)
            let a: Vec<i64> = cents.iter().map(|c| if mixed && *c != 0 { *c + (frac(c.abs(), *cut1) + 1) * c.signum() } else { frac(*c, *cut1) }).collect();
            let rest: Vec<i64> = cents.iter().zip(a.iter()).map(|(c, a)| c - a).collect();
            let mut pieces = vec![a];
            if *parts == 3 {
                let b2: Vec<i64> = rest.iter().map(|c| frac(*c, *cut2)).collect();
                let c3: Vec<i64> = rest.iter().zip(b2.iter()).map(|(c, b)| c - b).collect();
                pieces.push(b2);
                pieces.push(c3);
            } else {
                pieces.push(rest);
            }
            o.lines.remove(i);
            for (k, p) in pieces.into_iter().enumerate() {
                o.lines.insert(i + k, Line { id: l.id, kind: l.kind.clone(), vals: p.iter().map(|c| cents_f32(*c)).collect(), comment: if k == 0 || l.comment.contains("CTEEPBD_") { l.comment.clone() } else { String::new() } });
                // (a comment that carries a marker such as CTEEPBD_EXCLUYE_SCOP_ACS is part of what the line declares)
            }
        }
    }
    o
}

pub fn describe_layout(lay: &Layout) -> String {
    format!(
        "order:{} omit_id0:{} spacing:{} lead_ws:{} trail_ws:{} blank_every:{:?} comment_lines:{} header:{} bom:{} crlf:{} needs_last:{} meta_inside:{}",
        !lay.order.is_empty(),
        lay.omit_id0,
        lay.spacing,
        lay.leading_ws,
        lay.trailing_ws,
        lay.blank_every,
        lay.comment_lines.len(),
        lay.header,
        lay.bom,
        lay.crlf,
        lay.needs_last,
        lay.meta_inside
    )
}

pub fn unused(_: &[f32]) -> String {
    vals_text(&[])
}
