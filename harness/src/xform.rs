//! Transformations of a `Building` used by the metamorphic properties.

use crate::dom::*;
use crate::gen::{Building, Kind, Line};

/// new step i carries old step perm[i]
pub fn permute_steps(b: &Building, perm: &[usize]) -> Building {
    let mut o = b.clone();
    for l in &mut o.lines {
        l.vals = perm.iter().map(|p| l.vals[*p]).collect();
    }
    for nd in &mut o.needs {
        nd.vals = perm.iter().map(|p| nd.vals[*p]).collect();
    }
    o
}

/// every step split into m equal sub-steps carrying 1/m of its energy
pub fn subdivide(b: &Building, m: usize) -> Building {
    let mut o = b.clone();
    o.n = b.n * m;
    let sub = |v: &Vec<f32>| -> Vec<f32> {
        let mut out = Vec::with_capacity(v.len() * m);
        for x in v {
            for _ in 0..m {
                out.push(*x / m as f32);
            }
        }
        out
    };
    for l in &mut o.lines {
        l.vals = sub(&l.vals);
    }
    for nd in &mut o.needs {
        nd.vals = sub(&nd.vals);
    }
    o
}

/// every energy value (components and demands) multiplied by c
pub fn scale(b: &Building, c: f32) -> Building {
    let mut o = b.clone();
    for l in &mut o.lines {
        for v in &mut l.vals {
            *v *= c;
        }
    }
    for nd in &mut o.needs {
        for v in &mut nd.vals {
            *v *= c;
        }
    }
    o
}

/// monotone map of every non-zero magnitude v to 0.01 + v / div (sign kept): order, equalities and zeros are
/// preserved, differences shrink by `div`, and every value stays in the property's domain (>= 0.01 kWh).
/// Makes a building small enough for an absolute threshold in the code to bite.
pub fn tiny(b: &Building, div: f32) -> Building {
    let m = |v: &mut f32| {
        if *v != 0.0 {
            *v = v.signum() * (0.01 + v.abs() / div);
        }
    };
    let mut o = b.clone();
    o.lines.iter_mut().flat_map(|l| l.vals.iter_mut()).for_each(m);
    o.needs.iter_mut().flat_map(|n| n.vals.iter_mut()).for_each(m);
    o
}

/// smallest and largest non-zero magnitude among all values
pub fn magnitude_range(b: &Building) -> Option<(f32, f32)> {
    let mut lo = f32::INFINITY;
    let mut hi = 0.0f32;
    for v in b.lines.iter().flat_map(|l| l.vals.iter()).chain(b.needs.iter().flat_map(|n| n.vals.iter())) {
        let a = v.abs();
        if a > 0.0 {
            lo = lo.min(a);
            hi = hi.max(a);
        }
    }
    if hi > 0.0 {
        Some((lo, hi))
    } else {
        None
    }
}

/// per-step EPB electricity use (incl. auxiliaries) and on-site electricity production, as declared
pub fn elec_use_pv(b: &Building) -> (Vec<f64>, Vec<f64>, Vec<f64>) {
    let mut us = vec![0.0; b.n];
    let mut pv = vec![0.0; b.n];
    let mut chp = vec![0.0; b.n];
    for l in &b.lines {
        match &l.kind {
            Kind::Used { srv, car: Car::ELECTRICIDAD } if srv.is_epb() => {
                for t in 0..b.n {
                    us[t] += l.vals[t] as f64;
                }
            }
            Kind::Aux => {
                for t in 0..b.n {
                    us[t] += l.vals[t] as f64;
                }
            }
            Kind::Prod { src: Src::EL_INSITU } => {
                for t in 0..b.n {
                    pv[t] += l.vals[t] as f64;
                }
            }
            Kind::Prod { src: Src::EL_COGEN } => {
                for t in 0..b.n {
                    chp[t] += l.vals[t] as f64;
                }
            }
            _ => {}
        }
    }
    (us, pv, chp)
}

pub fn add_line(b: &Building, l: Line) -> Building {
    let mut o = b.clone();
    o.lines.push(l);
    o
}

/// permutation from sort keys (stable): perm[i] = index of the i-th smallest key
pub fn perm_from_keys(keys: &[u16], n: usize) -> Vec<usize> {
    let mut idx: Vec<usize> = (0..n).collect();
    idx.sort_by_key(|i| keys[*i % keys.len().max(1)]);
    idx
}
