//! Dispatch from a property id to its check.

use std::path::Path;

use crate::engine::{replay_cmd, run_property, Outcome, Tier};
use crate::props;
use crate::semfuzz::{fuzz_bytes, FuzzVerdict};

macro_rules! registry {
    ($($id:literal => $ty:ty),* $(,)?) => {
        pub const IDS: &[&str] = &[$($id),*];
        pub fn run(id: &str, tier: Tier, seed: u64) -> Option<Outcome> {
            Some(match id {
                $($id => run_property::<$ty>(tier, seed),)*
                _ => return None,
            })
        }
        pub fn replay(id: &str, path: &Path) -> Option<Outcome> {
            Some(match id {
                $($id => replay_cmd::<$ty>(path),)*
                _ => return None,
            })
        }
        /// engine E4: one libFuzzer input for property `id`
        pub fn fuzz(id: &str, data: &[u8]) -> Option<FuzzVerdict> {
            Some(match id {
                $($id => fuzz_bytes::<$ty>(data),)*
                _ => return None,
            })
        }
    };
}

registry! {
    "C01" => props::c01::C01,
    "C02" => props::c02::C02,
    "C03" => props::c03::C03,
    "C04" => props::c04::C04,
    "C05" => props::c05::C05,
    "C06" => props::c06::C06,
    "C07" => props::c07::C07,
    "C08" => props::c08::C08,
    "C09" => props::c09::C09,
    "C10" => props::c10::C10,
    "C11" => props::c11::C11,
    "C12" => props::c12::C12,
    "C13" => props::c13::C13,
    "C14" => props::c14::C14,
    "C15" => props::c15::C15,
    "C16" => props::c16::C16,
    "C17" => props::c17::C17,
    "C18" => props::c18::C18,
    "C19" => props::c19::C19,
}
