#!/bin/bash
# usage: ./check.sh <Cxx> quick|thorough      run one property check against /repo's working tree
#        ./check.sh replay <file>             re-run one saved case
# exit: 0 property held on everything explored / 1 violation (VIOLATION line) / 2 could not decide
set -u
VERIF=/verif
export CARGO_NET_OFFLINE=true
export CARGO_TERM_COLOR=never
cd "$VERIF/harness" || exit 2
mkdir -p "$VERIF/.build"

build_harness() {
  # rebuilds the library from /repo's current working tree (path dependency) and the harness
  if ! cargo build --release >"$VERIF/.build/harness-build.log" 2>&1; then
    echo "harness error: build failed (library API changed or /repo does not compile)"
    tail -n 30 "$VERIF/.build/harness-build.log"
    exit 2
  fi
}
build_cli() {
  # the repository's own binary, debug profile (the profile its CLI tests use)
  if ! cargo build --manifest-path /repo/Cargo.toml --bin cteepbd --target-dir "$VERIF/.build/repo" >"$VERIF/.build/cli-build.log" 2>&1; then
    echo "harness error: build of /repo's cteepbd binary failed"
    tail -n 30 "$VERIF/.build/cli-build.log"
    exit 2
  fi
}

case "${1:-}" in
  replay)
    build_harness
    build_cli
    exec "$VERIF/.build/harness/release/vcheck" replay "${2:-}"
    ;;
  C[0-9][0-9])
    id="$1"
    tier="${2:-quick}"
    build_harness
    case "$id" in
      C10|C12|C16|C17|C18|C19) build_cli ;;
    esac
    if [ "$id" = "C16" ] && [ "$tier" = "thorough" ]; then
      # the shipped profile (panic = "abort", LTO, opt-level z) is spot-checked by the thorough tier
      if cargo build --release --manifest-path /repo/Cargo.toml --bin cteepbd --target-dir "$VERIF/.build/repo-release" >"$VERIF/.build/cli-release-build.log" 2>&1; then
        export VERIF_CLI_RELEASE="$VERIF/.build/repo-release/release/cteepbd"
      fi
    fi
    exec "$VERIF/.build/harness/release/vcheck" "$id" --tier "$tier"
    ;;
  *)
    echo "usage: $0 <Cxx> quick|thorough | replay <file>"
    exit 2
    ;;
esac
