# Mutants of energiacte/cteepbd used to test the sensitivity of the checks (DESIGN section 6).
# Each mutant is a textual replacement in one file of /repo (more robust than line-based diffs).
# props: the properties whose statement the mutant breaks (the checks expected to fire).
M = []
def m(name, props, file, old, new, note=""):
    M.append(dict(name=name, props=props, file=file, old=old, new=new, note=note))

# ---- C01
m("c01-exp-nepus-not-min", ["C01"], "src/balance.rs",
  "let E_exp_cr_used_nEPus_t = vecvecmin(&E_exp_cr_t, &used.nepus_t);",
  "let E_exp_cr_used_nEPus_t = used.nepus_t.clone();",
  "exported to nEPB = nEPB use instead of min(exported, nEPB use)")
m("c01-del-use-minus-prod", ["C01"], "src/balance.rs",
  "let E_del_cr_t = vecvecdif(&used.epus_t, &prod.epus_t);",
  "let E_del_cr_t = vecvecdif(&used.epus_t, &prod.t);",
  "delivered = use - production (negative when production exceeds use)")
m("c12-fmatch-one-source-only", ["C02", "C12"], "src/balance.rs",
  "            let used = vecvecmul(&E_pr_cr_j_usmax_t, &f_match_t);\n",
  "            let used = if source == ProdSource::EL_COGEN { vecvecmul(&E_pr_cr_j_usmax_t, &f_match_t) } else { E_pr_cr_j_usmax_t.clone() };\n",
  "load matching factor applied to cogeneration only")
m("ctl-share-annual-equivalent", [], "src/balance.rs",
  "                .map(|(pr_j, pr_all)| if *pr_all > 1e-3 { pr_j / pr_all } else { 0.0 })\n                .collect();",
  "                .map(|(_pr_j, _pr_all)| if E_pr_cr_an > 1e-3 { E_pr_cr_j_an[source] / E_pr_cr_an } else { 0.0 })\n                .collect();",
  "per-source share from annual production: equivalent, because no carrier has two sources outside the priority branch")
# ---- C02
m("c02-dest-swap", ["C02"], "src/balance.rs",
  "            f_we_exp_cr_compute(Dest::A_NEPB, Step::A)?\n",
  "            f_we_exp_cr_compute(Dest::A_RED, Step::A)?\n",
  "A_NEPB step A factor looked up with destination A_RED")
m("c02-step-swap", ["C02"], "src/balance.rs",
  "            f_we_exp_cr_compute(Dest::A_RED, Step::B)?\n",
  "            f_we_exp_cr_compute(Dest::A_RED, Step::A)?\n",
  "grid export step B factor looked up with step A")
m("ctl-weight-noop", [], "src/balance.rs",
  "            for (source, E_exp_cr_gen_an) in &exp.by_src_an {\n                result += wfactors.find(carrier, (*source).into(), dest, step)?\n                    * (E_exp_cr_gen_an / exp.an);",
  "            let tot: f32 = exp.by_src_an.values().sum();\n            for (source, E_exp_cr_gen_an) in &exp.by_src_an {\n                result += wfactors.find(carrier, (*source).into(), dest, step)?\n                    * (E_exp_cr_gen_an / tot) * (tot / exp.an).min(1.0).max(1.0);",
  "no-op control (weights still by exported share): must NOT be detected", )
m("c02-cgn-factor-sum-of-ratios", ["C02", "C09"], "src/wfactors.rs",
  "            let used_prod_ratio = if prod_an > 0.0 { used_an / prod_an } else { 0.0 };",
  "            let used_prod_ratio = used_t.iter().zip(prod.iter()).map(|(us, pr)| if *pr > 0.0 { us / pr } else { 0.0 }).sum::<f32>(); let _ = (used_an, prod_an);",
  "F4 reverted: cogeneration factor = sum over steps of ratios")
m("c02-cgn-factor-div-n", ["C02", "C09"], "src/wfactors.rs",
  "            let used_prod_ratio = if prod_an > 0.0 { used_an / prod_an } else { 0.0 };",
  "            let used_prod_ratio = used_t.iter().zip(prod.iter()).map(|(us, pr)| if *pr > 0.0 { us / pr } else { 0.0 }).sum::<f32>() / (prod.len().max(1) as f32); let _ = (used_an, prod_an);",
  "cogeneration factor = mean of per-step ratios")
m("c02-delcgn-el-factor", ["C02"], "src/balance.rs",
  "        del.cgn_an * fP_grid_A\n",
  "        del.cgn_an * wfactors.find(Carrier::ELECTRICIDAD, Source::RED, Dest::SUMINISTRO, Step::A)?\n",
  "cogeneration input weighted with the electricity grid factor")
m("c02-rer-from-a", ["C02"], "src/balance.rs",
  "    let rer = balance.we.b.rer();",
  "    let rer = balance.we.a.rer();",
  "RER computed from step A")
# ---- C03
m("c03-k-on-exp-a", ["C03", "C02"], "src/balance.rs",
  "        E_we_exp_cr_an = E_we_exp_cr_an_A + (k_exp * E_we_exp_cr_an_AB); // (formula 20)",
  "        E_we_exp_cr_an = k_exp * (E_we_exp_cr_an_A + E_we_exp_cr_an_AB); // (formula 20)",
  "k_exp applied to the step A term too")
m("c03-one-minus-k", ["C03", "C02"], "src/balance.rs",
  "        E_we_exp_cr_an = E_we_exp_cr_an_A + (k_exp * E_we_exp_cr_an_AB); // (formula 20)",
  "        E_we_exp_cr_an = E_we_exp_cr_an_A + ((1.0 - k_exp) * E_we_exp_cr_an_AB); // (formula 20)",
  "(1 - k_exp)")
m("c03-k-squared", ["C03", "C02"], "src/balance.rs",
  "        E_we_exp_cr_an = E_we_exp_cr_an_A + (k_exp * E_we_exp_cr_an_AB); // (formula 20)",
  "        E_we_exp_cr_an = E_we_exp_cr_an_A + (k_exp * k_exp * E_we_exp_cr_an_AB); // (formula 20)",
  "k_exp squared: exact at 0 and 1, wrong in between")
m("c03-k-leaks-into-flows", ["C03", "C01", "C02"], "src/balance.rs",
  "    let (exp, del) = compute_exported_delivered(&used, &prod);",
  "    let (mut exp, del) = compute_exported_delivered(&used, &prod);\n    if k_exp > 0.25 && k_exp < 0.75 { exp.grid_an *= 1.0 + 0.01 * k_exp; }",
  "exported energy depends on k_exp for interior k")
# ---- C04
m("c04-addassign-drop-nepus", ["C04", "C02"], "src/types/balance/all_carriers.rs",
  "        self.exp.nepus += rhs.exp.nepus_an;\n", "",
  "total exported to nEPB never accumulated")
m("c04-normalize-drop-exp-grid", ["C04", "C02"], "src/types/balance/all_carriers.rs",
  "                grid: k_area * self.exp.grid,", "                grid: self.exp.grid,",
  "per-m2 exported-to-grid not divided by the area")
m("c04-double-add-del-onst", ["C04", "C02"], "src/types/balance/all_carriers.rs",
  "        self.del.onst += rhs.del.onst_an;\n", "        self.del.onst += rhs.del.onst_an;\n        self.del.onst += rhs.del.onst_an;\n",
  "on-site delivered energy accumulated twice")
m("c04-a-by-srv-times-area", ["C04", "C02"], "src/types/balance/all_carriers.rs",
  "        A_by_srv.values_mut().for_each(|v| *v *= k_area);", "        A_by_srv.values_mut().for_each(|v| *v *= area);",
  "per-m2 step A by service multiplied by the area")
m("ctl-by-srv-by-src-overwrite-equivalent", [], "src/types/balance/all_carriers.rs",
  "                *hash_srv.entry(*service).or_default() += epus_for_srv_for_src;",
  "                *hash_srv.entry(*service).or_default() = *epus_for_srv_for_src;",
  "by-service-by-source map overwritten instead of accumulated (only visible with the same source on two carriers: never; control for detectability)")

# ---- C05
m("c05-pool-production-over-ids", ["C05"], "src/components.rs",
  "            let prod: Vec<_> = components_for_id\n                .clone()\n                .filter(|c| c.is_generated())\n                .collect();",
  "            let prod: Vec<_> = env_comps.iter().filter(|c| c.is_generated()).collect();",
  "declared production of every system offsets this system's use")
m("c05-complete-only-when-no-production", ["C05"], "src/components.rs",
  "                    .map(|&v| if v > 0.0 { v } else { 0.0 })\n                    .collect()\n            };",
  "                    .map(|&_v| 0.0)\n                    .collect()\n            };",
  "partial declared production is not completed")
m("c05-abs-instead-of-positive-part", ["C05"], "src/components.rs",
  "                    .map(|&v| if v > 0.0 { v } else { 0.0 })\n                    .collect()\n            };",
  "                    .map(|&v| v.abs())\n                    .collect()\n            };",
  "surplus production generates extra production")
m("c05-no-termosolar-completion", ["C05"], "src/components.rs",
  "        self.complete_produced_for_onsite_generated_use(Carrier::TERMOSOLAR);\n", "",
  "only ambient energy is completed")
m("c05-drop-comment-used", ["C05"], "src/types/energy/used.rs",
  "        let comment = items.get(1).unwrap_or(&\"\").to_string();\n        let items: Vec<&str> = items[0].split(',').map(str::trim).collect();\n\n        // Minimal possible length (carrier + type + subtype + 1 value)",
  "        let comment = String::new();\n        let items: Vec<&str> = items[0].split(',').map(str::trim).collect();\n\n        // Minimal possible length (carrier + type + subtype + 1 value)",
  "comments of consumption lines are dropped")
m("c05-demand-last-line-wins", ["C05"], "src/types/needs/mod.rs",
  "                Some(vecvecsum(nd, new_values))",
  "                { let _ = nd; let nv: &Vec<f32> = new_values; Some(nv.to_owned()) }",
  "a second DEMANDA line of a service replaces the first")
# ---- C06
m("c06-F1-reverted", ["C06", "C10"], "src/components.rs",
  "            self.data.retain(|c| !(c.is_aux() && c.has_id(id)));",
  "            self.data.retain(|c| !c.is_aux());",
  "F1 reverted")
m("c06-F2-reverted", ["C06"], "src/components.rs",
  "            .filter(|c| c.is_used() || c.is_generated() || c.is_aux())",
  "            .filter(|c| c.is_used() || c.is_generated())",
  "F2 reverted")
m("c06-F3a-reverted", ["C06"], "src/components.rs",
  "                q_out.iter_mut().for_each(|v| *v = v.abs());",
  "                q_out.iter_mut().for_each(|v| *v = *v);",
  "F3a reverted")
m("c06-F3b-reverted", ["C06"], "src/components.rs",
  ".map(|(val, tot)| if tot > &0.0 { val / tot } else { frac_an })",
  ".map(|(val, tot)| if tot > &0.0 { val / tot } else { 0.0 * frac_an })",
  "F3b reverted")
m("c06-single-service-shortcut-too-wide", ["C06"], "src/components.rs",
  "            if services_for_uses_with_id.len() == 1 {",
  "            if services_for_uses_with_id.len() >= 1 && services_for_uses_with_id.iter().next().unwrap().is_epb() {",
  "multi-service systems get all auxiliaries on one (arbitrary) service")
m("c06-abs-per-line", ["C06", "C10"], "src/components.rs",
  "                            .insert(e.service, vecvecsum(&q_out_by_srv[&e.service], &e.values));",
  "                            .insert(e.service, vecvecsum(&q_out_by_srv[&e.service], &e.values.iter().map(|v| v.abs()).collect::<Vec<f32>>()));",
  "magnitude taken per SALIDA line instead of per summed service output")
# ---- C08
m("c08-has-nepb-electricity-only", ["C08"], "src/wfactors.rs",
  "        let has_nepb = components.data.iter().any(|c| c.is_nepb_use());",
  "        let has_nepb = components.data.iter().any(|c| c.is_nepb_use() && c.is_electricity());",
  "A_NEPB factors dropped unless electricity has nEPB use")
m("ctl-c08-cogen-by-use-equivalent", [], "src/wfactors.rs",
  "        let has_cogen = components.data.iter().any(|c| c.is_cogen_pr());",
  "        let has_cogen = components.data.iter().any(|c| c.is_cogen_use());",
  "prepared sets hold no COGEN-source factor, so this filter never removes anything: equivalent")
m("c08-onsite-el-needs-epb-use", ["C08"], "src/wfactors.rs",
  "            .any(|c| c.is_electricity() && c.is_onsite_pr());",
  "            .any(|c| c.is_electricity() && c.is_epb_use());",
  "on-site electricity factors kept only if there is EPB electricity use")
m("c08-F5-reverted", ["C08", "C16"], "src/types/energy/elements.rs",
  "            Energy::Out(_) => false,\n            _ => self.carrier() == Carrier::ELECTRICIDAD,",
  "            _ => self.carrier() == Carrier::ELECTRICIDAD,",
  "F5 reverted")
m("c08-strip-drops-step-b", ["C08"], "src/wfactors.rs",
  "        self.wdata.retain(|f| f.dest != Dest::A_NEPB || has_nepb);",
  "        self.wdata.retain(|f| f.dest != Dest::A_NEPB || has_nepb);\n        let exports_el = components.data.iter().any(|c| c.is_electricity() && c.is_onsite_pr());\n        self.wdata.retain(|f| f.step != Step::B || f.carrier == Carrier::ELECTRICIDAD || exports_el);",
  "step B factors of ambient/solar dropped when there is no on-site electricity")
# ---- C09
m("c12-fmatch-annual", ["C02", "C12"], "src/balance.rs",
  "            .map(|(produced, used)| if *used > 0.0 { produced / used } else { 0.0 })\n            .map(|x| {",
  "            .map(|(_produced, used)| if *used > 0.0 { E_pr_cr_t.iter().sum::<f32>() / E_EPus_cr_t.iter().sum::<f32>() } else { 0.0 })\n            .map(|x| {",
  "load matching factor from annual totals (invariant under permutation / subdivision, so C09 rightly stays silent)")
m("c09-carry-between-steps", ["C09", "C02"], "src/balance.rs",
  "    let E_exp_cr_used_nEPus_t = vecvecmin(&E_exp_cr_t, &used.nepus_t);",
  "    let mut E_exp_cr_used_nEPus_t = vecvecmin(&E_exp_cr_t, &used.nepus_t);\n    for i in 1..E_exp_cr_used_nEPus_t.len() { if E_exp_cr_used_nEPus_t[i - 1] > 0.0 { E_exp_cr_used_nEPus_t[i] *= 0.999; } }",
  "a step's nEPB export depends on the previous step")
# ---- C11
m("c11-share-threshold-1", ["C11", "C01", "C02"], "src/balance.rs",
  "if *pr_all > 1e-3 { pr_j / pr_all } else { 0.0 }", "if *pr_all > 1.0 { pr_j / pr_all } else { 0.0 }",
  "absolute threshold of 1 kWh on the production of a step")
m("c11-rer-threshold-1", ["C11"], "src/balance.rs",
  "        if tot > 0.0 {\n            let (onst, nrb)", "        if tot > 1.0 {\n            let (onst, nrb)",
  "perimeter RERs reported as 0 below 1 kWh of primary energy")
m("c11-dhw-threshold-1", ["C11", "C15"], "src/cte.rs",
  "        .get(&Carrier::ELECTRICIDAD)\n        .map(|v| v.abs() < 0.01)", "        .get(&Carrier::ELECTRICIDAD)\n        .map(|v| v.abs() < 1.0)",
  "DHW electricity below 1 kWh ignored")
m("c11-constant-in-del", ["C11", "C02", "C04"], "src/balance.rs",
  "            an: E_del_cr_an + E_del_cr_onsite_an + used.cgnus_an,", "            an: E_del_cr_an + E_del_cr_onsite_an + used.cgnus_an + 0.5,",
  "constant added to delivered energy")
m("c11-area-floor", ["C11", "C04", "C02"], "src/types/balance/all_carriers.rs",
  "        let k_area = if area == 0.0 { 0.0 } else { 1.0 / area };", "        let k_area = if area == 0.0 { 0.0 } else { 1.0 / area.max(1.0) };",
  "areas below 1 m2 treated as 1 m2")
# ---- C12
m("c12-priorities-reversed", ["C12", "C02"], "src/types/prodsource.rs",
  "vec![Self::EL_INSITU, Self::EL_COGEN]", "vec![Self::EL_COGEN, Self::EL_INSITU]", "cogeneration served first")
m("ctl-c12-x-inverted-equivalent", [], "src/balance.rs",
  "            .map(|(produced, used)| if *used > 0.0 { produced / used } else { 0.0 })",
  "            .map(|(produced, used)| if *produced > 0.0 { used / produced } else { 0.0 })",
  "formula (32) is symmetric in x <-> 1/x and gives 1 when either is zero: equivalent")
m("c12-fmatch-wrong-formula", ["C12", "C02"], "src/balance.rs",
  "                    (x + 1.0 / x - 1.0) / (x + 1.0 / x)", "                    1.0 - 1.0 / (x + 1.0 / x + 1.0)",
  "another matching function (still within (0.5,1))")
m("c12-fmatch-ignored-when-off-by-flag", ["C12", "C02"], "src/balance.rs",
  "        vec![1.0; num_steps]\n    }\n}", "        vec![0.999; num_steps]\n    }\n}",
  "matching factor 0.999 without load matching")
# ---- C14
m("c14-exp-ab-sign", ["C14", "C02", "C03"], "src/balance.rs",
  "        E_we_exp_cr_an = E_we_exp_cr_an_A + (k_exp * E_we_exp_cr_an_AB); // (formula 20)",
  "        E_we_exp_cr_an = E_we_exp_cr_an_A - (k_exp * E_we_exp_cr_an_AB); // (formula 20)",
  "sign of the step AB term")
m("c07-stepB-default-onsite", ["C07"], "src/wfactors.rs",
  "            if let Some(factors) = fp_a_red_input {\n                // VECTOR, SRC, A_RED, B, ren, nren == VECTOR, RED, SUMINISTRO, A, ren, nren\n                self.ensure_wfactor(\n                    *c,\n                    *s,\n                    A_RED,\n                    B,\n                    factors,",
  "            if let Some(factors) = fp_a_red_input {\n                // VECTOR, SRC, A_RED, B, ren, nren == VECTOR, RED, SUMINISTRO, A, ren, nren\n                self.ensure_wfactor(\n                    *c,\n                    *s,\n                    A_RED,\n                    B,\n                    fp_a_input.unwrap_or(factors) * 3.0,",
  "step B grid export factor = 3 x on-site factor (renewable credit instead of avoided grid resources)")

# ---- C07
m("c07-ensure-becomes-update-a-red", ["C07"], "src/wfactors.rs",
  "                // VECTOR, SRC, A_RED, A, ren, nren === VECTOR, SRC, SUMINISTRO, A, ren, nren\n                self.ensure_wfactor(",
  "                // VECTOR, SRC, A_RED, A, ren, nren === VECTOR, SRC, SUMINISTRO, A, ren, nren\n                self.update_wfactor(",
  "a user-given A_RED step A factor is overwritten by the default")
m("c07-user-red1-applied-to-red2", ["C07", "C19"], "src/wfactors.rs",
  "            (RED2, RED, SUMINISTRO, A, user.red2, \"Factor de usuario\"),",
  "            (RED2, RED, SUMINISTRO, A, user.red2.or(user.red1), \"Factor de usuario\"),",
  "user RED1 also used for RED2 when RED2 is not given")
m("c07-drop-grid-factor-check", ["C07"], "src/wfactors.rs",
  "        if !has_grid_factors_for_all_carriers {", "        if false && !has_grid_factors_for_all_carriers {",
  "unusable sets are accepted")
m("c07-skip-termosolar-exports", ["C07"], "src/wfactors.rs",
  "            (Carrier::TERMOSOLAR, Source::INSITU),\n        ];", "        ];",
  "no export factors completed for solar thermal")
m("c07-find-last-match", ["C07"], "src/wfactors.rs",
  "        self.wdata\n            .iter()\n            .find(|fp| {\n                fp.carrier == cr && fp.source == source && fp.dest == dest && fp.step == step\n            })",
  "        self.wdata\n            .iter()\n            .rev()\n            .find(|fp| {\n                fp.carrier == cr && fp.source == source && fp.dest == dest && fp.step == step\n            })",
  "find returns the last instead of the first matching line (duplicates)")
m("c07-red-default-wrong", ["C07", "C19"], "src/cte.rs",
  "    red2: RenNrenCo2::new(0.0, 1.3, 0.3),", "    red2: RenNrenCo2::new(0.0, 1.3, 0.03),", "built-in RED2 default co2 0.03")
# ---- C10
m("c10-bom-not-stripped", ["C10"], "src/components.rs",
  "        let s_no_bom = s.strip_prefix('\\u{feff}').unwrap_or(s);", "        let s_no_bom = s;", "byte-order mark no longer stripped")
m("c10-header-not-skipped", ["C10"], "src/components.rs",
  ".filter(|l| !(l.starts_with('#') || l.starts_with(\"vector,\") || l.is_empty()));\n        let cmeta",
  ".filter(|l| !(l.starts_with('#') || l.is_empty()));\n        let cmeta", "header line no longer skipped")
m("c10-id-omitted-is-1", ["C10", "C18"], "src/types/energy/used.rs",
  "            Err(_) => (0, 0_i32),", "            Err(_) => (0, 1_i32),", "consumption lines without id belong to system 1")
m("c10-first-aux-line-only", ["C10", "C06"], "src/components.rs",
  "            let aux_tot = veclistsum(\n                &self\n                    .data\n                    .iter()\n                    .filter_map(|c| match c {\n                        Energy::Aux(e) if e.id == id => Some(e.values()),\n                        _ => None,\n                    })\n                    .collect::<Vec<_>>(),\n            );",
  "            let aux_tot = veclistsum(\n                &self\n                    .data\n                    .iter()\n                    .filter_map(|c| match c {\n                        Energy::Aux(e) if e.id == id => Some(e.values()),\n                        _ => None,\n                    })\n                    .take(1)\n                    .collect::<Vec<_>>(),\n            );",
  "only the first AUX line of a multi-service system is counted")
m("c10-negative-ids-merged", ["C10", "C05"], "src/types/energy/prod.rs",
  "            Ok(id) => (1, id),", "            Ok(id) => (1, if id < -1 { -1 } else { id }),", "production lines with ids below -1 are filed under -1")
m("c10-trim-missing-crlf", ["C10"], "src/components.rs",
  "        let lines: Vec<&str> = s_no_bom.lines().map(str::trim).collect();", "        let lines: Vec<&str> = s_no_bom.split('\\n').map(|l| l.trim_matches(' ')).collect();",
  "lines split on LF and trimmed of spaces only (CR and tabs stay)")
# ---- C13
m("c13-rer-ren-over-nren", ["C13", "C02"], "src/types/rennrenco2.rs",
  "            self.ren / tot\n", "            if self.nren > 0.0 { self.ren / self.nren } else { 1.0 }\n", "rer = ren/nren")
m("c13-no-zero-guard", ["C13"], "src/types/rennrenco2.rs",
  "        if tot == 0.0 {\n            0.0\n        } else {", "        if false {\n            0.0\n        } else {", "0/0 when total is zero")
m("c13-nearby-k-instead-of-1-minus-k", ["C13"], "src/balance.rs",
  "ren_nrb_cr + ren_el_onst + ren_el_cgn - (1.0 - k_exp) * ren_el_exp_a,", "ren_nrb_cr + ren_el_onst + ren_el_cgn - k_exp * ren_el_exp_a,",
  "exported resources no longer subtracted from the nearby numerator at k_exp = 0 (masks the two known nrb classes; detectable only where nrb then exceeds rer)")
m("c13-biomass-onsite", ["C13"], "src/types/carrier.rs",
  "    pub const ONST: [Carrier; 2] = [Carrier::EAMBIENTE, Carrier::TERMOSOLAR];", "    pub const ONST: [Carrier; 3] = [Carrier::EAMBIENTE, Carrier::TERMOSOLAR, Carrier::GASNATURAL];",
  "natural gas counted in the on-site perimeter (on-site no longer inside nearby)")
# ---- C15
m("c15-aux-subtracted-twice", ["C15"], "src/cte.rs",
  "            1.0 - (dhw_aux_use_an / dhw_el_used_an)", "            1.0 - 2.0 * (dhw_aux_use_an / dhw_el_used_an)", "auxiliary share counted twice")
m("c15-ren-fraction-over-nren", ["C15"], "src/cte.rs",
  "        .map(|f| f.ren / (f.ren + f.nren))", "        .map(|f| if f.nren > 0.0 { (f.ren / f.nren).min(1.0) } else { 1.0 })", "renewable share = ren/nren capped at 1")
m("c15-only-nearby-ignores-electricity", ["C15"], "src/cte.rs",
  "        .all(|&c| c.is_nearby());", "        .all(|&c| c.is_nearby() || c == ELECTRICIDAD);", "electricity does not break the single-biomass inference")
m("c15-low-scop-not-excluded", ["C15"], "src/cte.rs",
  "                && c.comment().contains(\"CTEEPBD_EXCLUYE_SCOP_ACS\")", "                && c.comment().contains(\"CTEEPBD_EXCLUYE_SCOP_ACS_\")", "low-SCOP exclusion tag no longer recognised")
m("c15-zero-demand-returns-zero", ["C15"], "src/cte.rs",
  "    if demanda_anual_acs.abs() < f32::EPSILON {\n        return Err(EpbdError::WrongInput(\n            \"Demanda anual de ACS nula o casi nula\".to_string(),\n        ));\n    };",
  "    if demanda_anual_acs.abs() < f32::EPSILON {\n        return Ok(0.0);\n    };", "zero demand reports 0 instead of an error")
m("c15-nepb-electricity-counts", ["C15"], "src/cte.rs",
  "        .filter(|c| c.is_used() && c.has_service(Service::ACS) && c.has_carrier(ELECTRICIDAD))",
  "        .filter(|c| c.is_used() && (c.has_service(Service::ACS) || c.has_service(Service::NEPB)) && c.has_carrier(ELECTRICIDAD))",
  "non-EPB electricity counted as DHW electricity (only matters when the DHW electricity is auxiliary-only)")
# ---- C16
m("c16-F6-reverted", ["C16"], "src/types/needs/mod.rs",
  "        if cur_len.map(|len| len != need.values.len()).unwrap_or(false) {", "        if false && cur_len.map(|len| len != need.values.len()).unwrap_or(false) {", "F6 reverted")
m("c16-items-index-without-length-check", ["C16"], "src/types/energy/used.rs",
  "        if items.len() < 4 {\n            return Err(EpbdError::ParseError(s.into()));\n        };",
  "        if items.len() < 3 {\n            return Err(EpbdError::ParseError(s.into()));\n        };", "a CONSUMO line with id and only three fields indexes out of bounds")
m("c16-meta-slice-6", ["C16"], "src/types/tmeta.rs",
  "s.trim()[5..]", "s.trim()[6..]", "metadata prefix assumed 6 bytes long (multi-byte char right after #META, or bare #META)")
m("c16-unwrap-on-numeric-parse", ["C16"], "src/types/energy/aux.rs",
  "            .map(|v| v.parse::<f32>())\n            .collect::<Result<Vec<f32>, _>>()\n            .map_err(|_| {\n                EpbdError::ParseError(format!(\"se esperaban valores numéricos en línea `{}`\", s))\n            })?;",
  "            .map(|v| Ok::<f32, std::num::ParseFloatError>(v.parse::<f32>().unwrap()))\n            .collect::<Result<Vec<f32>, _>>()\n            .map_err(|_| {\n                EpbdError::ParseError(format!(\"se esperaban valores numéricos en línea `{}`\", s))\n            })?;",
  "AUX values unwrap() their parse")
m("c16-cli-unwrap-red", ["C16", "C19"], "src/bin/cteepbd.rs",
  "                    f32::from_str(vv.trim()).unwrap_or_else(|_| {\n                        eprintln!(\"ERROR: factor de paso incorrecto: \\\"{}\\\"\", vv);\n                        exit(exitcode::DATAERR);\n                    })",
  "                    f32::from_str(vv.trim()).unwrap()", "--red1 / --red2 values unwrap() their parse")
# ---- C17
m("c17-F7-reverted", ["C17"], "src/asctexml.rs",
  "<Demanda><Servicio>CAL</Servicio><Valores>{}</Valores></Demanda>", "<Demanda><Servicio>CAL</Servicio><Valores>{}</Valores>", "F7 reverted for CAL only")
m("c17-escape-without-amp", ["C17"], "src/asctexml.rs",
  "            .replace('&', \"&amp;\")\n", "", "& not escaped")
m("c17-escape-meta-key-missing", ["C17"], "src/asctexml.rs",
  "            <Self as AsCteXml>::escape_xml(&self.key),", "            &self.key,", "metadata keys not escaped")
m("c17-plain-unsorted", ["C17"], "src/asplain.rs",
  "        .map(|(k, v)| format!(\"- {}: {:.2}\", k, v))\n        .collect::<Vec<String>>();\n    entries.sort();", "        .map(|(k, v)| format!(\"- {}: {:.2}\", k, v))\n        .collect::<Vec<String>>();", "by-key tables printed in hash order")
m("c17-plain-tot-is-ren", ["C17"], "src/asplain.rs",
  "        let tot = we_b.tot();", "        let tot = we_b.ren;", "C_ep tot printed as ren")
m("c17-xml-epm2-from-a", ["C17"], "src/asctexml.rs",
  "        let RenNrenCo2 { ren, nren, .. } = self.balance_m2.we.b;", "        let RenNrenCo2 { ren, nren, .. } = self.balance_m2.we.a;", "XML Epm2 from step A")
m("c17-json-field-not-read-back", ["C17"], "src/types/balance/all_carriers.rs",
  "    /// Exported energy to nEPB services\n    pub nepus: f32,\n}", "    /// Exported energy to nEPB services\n    #[serde(skip_deserializing)]\n    pub nepus: f32,\n}", "one field is written but not read back")
# ---- C18
m("c18-F8-reverted", ["C18"], "src/components.rs",
  "        write!(f, \"{}\\n{}{}\", meta_lines, data_lines, needs_lines)", "        write!(f, \"{}\\n{}\", meta_lines, data_lines)", "F8 reverted")
m("c18-out-one-decimal", ["C18"], "src/types/energy/out.rs",
  "            .map(|v| format!(\"{:.2}\", v))", "            .map(|v| format!(\"{:.1}\", v))", "SALIDA printed with one decimal")
m("c18-meta-equals", ["C18"], "src/types/tmeta.rs",
  "        write!(f, \"#META {}: {}\", self.key, self.value)", "        write!(f, \"#META {}= {}\", self.key, self.value)", "metadata printed with = (does not parse back)")
m("c18-comment-without-hash", ["C18"], "src/types/energy/prod.rs",
  "            format!(\" # {}\", self.comment)", "            format!(\" {}\", self.comment)", "production comment printed without #")
m("c18-factor-two-decimals", ["C18"], "src/types/factor.rs",
  "\"{}, {}, {}, {}, {:.3}, {:.3}, {:.3}{}\"", "\"{}, {}, {}, {}, {:.2}, {:.2}, {:.2}{}\"", "factors printed with two decimals")
m("c18-aux-prints-abs", ["C18"], "src/types/energy/aux.rs",
  "            .map(|v| format!(\"{:.2}\", v))", "            .map(|v| format!(\"{:.2}\", v * 1.01))", "auxiliary values printed 1 % too large")
# ---- C19
m("c19-kexp-meta-wins", ["C19"], "src/bin/cteepbd.rs",
  "        (_, Some(k_cli)) => (\"usuario\", k_cli),\n        (Some(k_meta), None) => (\"metadatos\", k_meta),", "        (Some(k_meta), _) => (\"metadatos\", k_meta),\n        (_, Some(k_cli)) => (\"usuario\", k_cli),", "metadata k_exp beats the option")
m("c19-area-validate-lt-zero", ["C19"], "src/bin/cteepbd.rs",
  "    if arearef <= 1e-3 {", "    if arearef < 0.0 {", "areas in [0, 0.001] accepted")
m("c19-loc-option-ignored-when-meta", ["C19"], "src/bin/cteepbd.rs",
  "    let (orig_fp, param_fp, fp_opt) = match (fp_path_cli, loc_cli, loc_meta) {", "    let loc_cli = if loc_meta.is_some() { None } else { loc_cli };\n    let (orig_fp, param_fp, fp_opt) = match (fp_path_cli, loc_cli, loc_meta) {", "-l ignored when the file has CTE_LOCALIZACION")
m("c19-setmeta-kexp-with-meta-value", ["C19"], "src/bin/cteepbd.rs",
  "    components.set_meta(\"CTE_KEXP\", &format!(\"{:.1}\", kexp));", "    components.set_meta(\"CTE_KEXP\", &format!(\"{:.1}\", kexp_meta.unwrap_or(kexp)));", "emitted CTE_KEXP keeps the shadowed metadata value")
m("c19-F9-reverted", ["C19"], "src/bin/cteepbd.rs",
  "            components.set_meta(\"CTE_LOCALIZACION\", l_cli);\n", "", "F9 reverted")
