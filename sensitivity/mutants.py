# Mutants of energiacte/cteepbd used to test the sensitivity of the checks (DESIGN section 6).
# Each mutant is a textual replacement in one file of /repo (more robust than line-based diffs).
# props: the properties whose statement the mutant breaks (the checks expected to fire).
M = []
def m(name, props, file, old, new, note=""):
    M.append(dict(name=name, props=props, file=file, old=old, new=new, note=note))

# ---- C01
m("c01-exp-nepus-not-min", ["C01"], "src/balance.rs",
  "let E_exp_cr_used_nEPus_t = vecvecmin(&E_exp_cr_t, &used.nepus_t);",
  "let E_exp_cr_used_nEPus_t = used.nepus_t.clone();",
  "exported to nEPB = nEPB use instead of min(exported, nEPB use)")
m("c01-del-use-minus-prod", ["C01"], "src/balance.rs",
  "let E_del_cr_t = vecvecdif(&used.epus_t, &prod.epus_t);",
  "let E_del_cr_t = vecvecdif(&used.epus_t, &prod.t);",
  "delivered = use - production (negative when production exceeds use)")
m("c12-fmatch-one-source-only", ["C02", "C12"], "src/balance.rs",
  "            let used = vecvecmul(&E_pr_cr_j_usmax_t, &f_match_t);\n",
  "            let used = if source == ProdSource::EL_COGEN { vecvecmul(&E_pr_cr_j_usmax_t, &f_match_t) } else { E_pr_cr_j_usmax_t.clone() };\n",
  "load matching factor applied to cogeneration only")
m("ctl-share-annual-equivalent", [], "src/balance.rs",
  "                .map(|(pr_j, pr_all)| if *pr_all > 1e-3 { pr_j / pr_all } else { 0.0 })\n                .collect();",
  "                .map(|(_pr_j, _pr_all)| if E_pr_cr_an > 1e-3 { E_pr_cr_j_an[source] / E_pr_cr_an } else { 0.0 })\n                .collect();",
  "per-source share from annual production: equivalent, because no carrier has two sources outside the priority branch")
# ---- C02
m("c02-dest-swap", ["C02"], "src/balance.rs",
  "            f_we_exp_cr_compute(Dest::A_NEPB, Step::A)?\n",
  "            f_we_exp_cr_compute(Dest::A_RED, Step::A)?\n",
  "A_NEPB step A factor looked up with destination A_RED")
m("c02-step-swap", ["C02"], "src/balance.rs",
  "            f_we_exp_cr_compute(Dest::A_RED, Step::B)?\n",
  "            f_we_exp_cr_compute(Dest::A_RED, Step::A)?\n",
  "grid export step B factor looked up with step A")
m("ctl-weight-noop", [], "src/balance.rs",
  "            for (source, E_exp_cr_gen_an) in &exp.by_src_an {\n                result += wfactors.find(carrier, (*source).into(), dest, step)?\n                    * (E_exp_cr_gen_an / exp.an);",
  "            let tot: f32 = exp.by_src_an.values().sum();\n            for (source, E_exp_cr_gen_an) in &exp.by_src_an {\n                result += wfactors.find(carrier, (*source).into(), dest, step)?\n                    * (E_exp_cr_gen_an / tot) * (tot / exp.an).min(1.0).max(1.0);",
  "no-op control (weights still by exported share): must NOT be detected", )
m("c02-cgn-factor-sum-of-ratios", ["C02", "C09"], "src/wfactors.rs",
  "            let used_prod_ratio = if prod_an > 0.0 { used_an / prod_an } else { 0.0 };",
  "            let used_prod_ratio = used_t.iter().zip(prod.iter()).map(|(us, pr)| if *pr > 0.0 { us / pr } else { 0.0 }).sum::<f32>(); let _ = (used_an, prod_an);",
  "F4 reverted: cogeneration factor = sum over steps of ratios")
m("c02-cgn-factor-div-n", ["C02", "C09"], "src/wfactors.rs",
  "            let used_prod_ratio = if prod_an > 0.0 { used_an / prod_an } else { 0.0 };",
  "            let used_prod_ratio = used_t.iter().zip(prod.iter()).map(|(us, pr)| if *pr > 0.0 { us / pr } else { 0.0 }).sum::<f32>() / (prod.len().max(1) as f32); let _ = (used_an, prod_an);",
  "cogeneration factor = mean of per-step ratios")
m("c02-delcgn-el-factor", ["C02"], "src/balance.rs",
  "        del.cgn_an * fP_grid_A\n",
  "        del.cgn_an * wfactors.find(Carrier::ELECTRICIDAD, Source::RED, Dest::SUMINISTRO, Step::A)?\n",
  "cogeneration input weighted with the electricity grid factor")
m("c02-rer-from-a", ["C02", "C13"], "src/balance.rs",
  "    let rer = balance.we.b.rer();",
  "    let rer = balance.we.a.rer();",
  "RER computed from step A")
# ---- C03
m("c03-k-on-exp-a", ["C03", "C02"], "src/balance.rs",
  "        E_we_exp_cr_an = E_we_exp_cr_an_A + (k_exp * E_we_exp_cr_an_AB); // (formula 20)",
  "        E_we_exp_cr_an = k_exp * (E_we_exp_cr_an_A + E_we_exp_cr_an_AB); // (formula 20)",
  "k_exp applied to the step A term too")
m("c03-one-minus-k", ["C03", "C02"], "src/balance.rs",
  "        E_we_exp_cr_an = E_we_exp_cr_an_A + (k_exp * E_we_exp_cr_an_AB); // (formula 20)",
  "        E_we_exp_cr_an = E_we_exp_cr_an_A + ((1.0 - k_exp) * E_we_exp_cr_an_AB); // (formula 20)",
  "(1 - k_exp)")
m("c03-k-squared", ["C03", "C02"], "src/balance.rs",
  "        E_we_exp_cr_an = E_we_exp_cr_an_A + (k_exp * E_we_exp_cr_an_AB); // (formula 20)",
  "        E_we_exp_cr_an = E_we_exp_cr_an_A + (k_exp * k_exp * E_we_exp_cr_an_AB); // (formula 20)",
  "k_exp squared: exact at 0 and 1, wrong in between")
m("c03-k-leaks-into-flows", ["C03", "C01", "C02"], "src/balance.rs",
  "    let (exp, del) = compute_exported_delivered(&used, &prod);",
  "    let (mut exp, del) = compute_exported_delivered(&used, &prod);\n    if k_exp > 0.25 && k_exp < 0.75 { exp.grid_an *= 1.0 + 0.01 * k_exp; }",
  "exported energy depends on k_exp for interior k")
# ---- C04
m("c04-addassign-drop-nepus", ["C04", "C02"], "src/types/balance/all_carriers.rs",
  "        self.exp.nepus += rhs.exp.nepus_an;\n", "",
  "total exported to nEPB never accumulated")
m("c04-normalize-drop-exp-grid", ["C04", "C02"], "src/types/balance/all_carriers.rs",
  "                grid: k_area * self.exp.grid,", "                grid: self.exp.grid,",
  "per-m2 exported-to-grid not divided by the area")
m("c04-double-add-del-onst", ["C04", "C02"], "src/types/balance/all_carriers.rs",
  "        self.del.onst += rhs.del.onst_an;\n", "        self.del.onst += rhs.del.onst_an;\n        self.del.onst += rhs.del.onst_an;\n",
  "on-site delivered energy accumulated twice")
m("c04-a-by-srv-times-area", ["C04", "C02"], "src/types/balance/all_carriers.rs",
  "        A_by_srv.values_mut().for_each(|v| *v *= k_area);", "        A_by_srv.values_mut().for_each(|v| *v *= area);",
  "per-m2 step A by service multiplied by the area")
m("ctl-by-srv-by-src-overwrite-equivalent", [], "src/types/balance/all_carriers.rs",
  "                *hash_srv.entry(*service).or_default() += epus_for_srv_for_src;",
  "                *hash_srv.entry(*service).or_default() = *epus_for_srv_for_src;",
  "by-service-by-source map overwritten instead of accumulated (only visible with the same source on two carriers: never; control for detectability)")
