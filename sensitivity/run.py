#!/usr/bin/env python3
"""Sensitivity runner: applies each mutant of mutants.py to a scratch copy of /repo, confirms the
repository's own tests still pass (so the mutant is 'realistic'), runs the owning properties'
checks (quick tier by default) against the copy and records whether they fire.

usage: run.py [--tests] [--tier quick|thorough] [--props C01,C02] [--extra-props C05] name... | --all
Scratch workspace: /tmp/mutws (repo copy, harness copy with its own target dir, output dir);
nothing under /repo or /verif is touched. Remove /tmp/mutws when done (run.py --clean)."""
import os, sys, subprocess, shutil, json, time, re
sys.path.insert(0, os.path.dirname(__file__))
from mutants import M

WS = os.environ.get("MUTWS", "/tmp/mutws")
def sh(cmd, **kw):
    return subprocess.run(cmd, shell=True, capture_output=True, text=True, **kw)

def setup():
    os.makedirs(WS, exist_ok=True)
    if not os.path.isdir(f"{WS}/repo/.git"):
        sh(f"rm -rf {WS}/repo && git clone -q /repo {WS}/repo")
    # sync to /repo's HEAD + working tree
    sh(f"cd {WS}/repo && git fetch -q /repo HEAD && git checkout -q --detach FETCH_HEAD && git checkout -q -- . && git clean -qfd -e target")
    sh(f"rsync -rlpgoD --checksum --delete --exclude target --exclude .git /repo/ {WS}/repo/")  # no -t: a restored file gets a fresh mtime, so cargo rebuilds (a preserved old mtime would leave the previous mutant's library in place when the next patch touches only the binary)
    os.makedirs(f"{WS}/harness", exist_ok=True)
    sh(f"rsync -rlpgoD --checksum --delete --exclude .cargo /verif/harness/ {WS}/harness/")
    t = open(f"{WS}/harness/Cargo.toml").read().replace('path = "/repo"', f'path = "{WS}/repo"')
    open(f"{WS}/harness/Cargo.toml", "w").write(t)
    os.makedirs(f"{WS}/harness/.cargo", exist_ok=True)
    open(f"{WS}/harness/.cargo/config.toml", "w").write(f'[net]\noffline = true\n[build]\ntarget-dir = "{WS}/target-harness"\n')
    os.makedirs(f"{WS}/out", exist_ok=True)

def restore():
    sh(f"rsync -rlpgoD --checksum --delete --exclude target --exclude .git /repo/ {WS}/repo/")  # no -t: a restored file gets a fresh mtime, so cargo rebuilds (a preserved old mtime would leave the previous mutant's library in place when the next patch touches only the binary)

def apply(mut):
    if mut.get('patch'):
        r = sh(f"cd {WS}/repo && git apply --whitespace=nowarn {mut['patch']}")
        return r.returncode == 0
    p = f"{WS}/repo/{mut['file']}"
    s = open(p).read()
    if mut['old'] not in s:
        return False
    open(p, "w").write(s.replace(mut['old'], mut['new'], 1))
    return True

def main():
    args = sys.argv[1:]
    if "--clean" in args:
        shutil.rmtree(WS, ignore_errors=True); return
    tests = "--tests" in args
    tier = "quick"
    props_override = None
    extra = []
    names = []
    i = 0
    while i < len(args):
        a = args[i]
        if a == "--tier": tier = args[i+1]; i += 1
        elif a == "--props": props_override = args[i+1].split(","); i += 1
        elif a == "--extra-props": extra = args[i+1].split(","); i += 1
        elif a == "--patch": i += 1
        elif a.startswith("--"): pass
        else: names.append(a)
        i += 1
    muts = M if "--all" in args else [m for m in M if any(re.fullmatch(n.replace("*", ".*"), m['name']) for n in names)]
    if "--patch" in args:
        pf = args[args.index("--patch") + 1]
        muts = [dict(name=os.path.basename(os.path.dirname(pf)) or pf, props=props_override or [], patch=pf, file=None, old=None, new=None)]
        names = []
    setup()
    results = []
    for mut in muts:
        restore()
        if not apply(mut):
            print(f"{mut['name']}: PATCH DOES NOT APPLY"); results.append((mut['name'], 'noapply', {})); continue
        row = {}
        if tests:
            r = sh(f"cd {WS}/repo && CARGO_NET_OFFLINE=true cargo test --workspace --no-fail-fast --offline --target-dir {WS}/target-repo 2>&1")
            passed = sum(int(x) for x in re.findall(r"test result: \w+\. (\d+) passed", r.stdout))
            failed = sum(int(x) for x in re.findall(r"test result: \w+\. \d+ passed; (\d+) failed", r.stdout))
            compiled = "error: could not compile" not in r.stdout
            row['tests'] = f"{passed}p/{failed}f" if compiled else "nocompile"
        b = sh(f"cd {WS}/harness && CARGO_NET_OFFLINE=true cargo build --release 2>&1")
        if b.returncode != 0:
            print(f"{mut['name']}: harness build failed\n{b.stdout[-1500:]}"); results.append((mut['name'], 'nobuild', row)); continue
        need_cli = False
        props = props_override or (mut['props'] + extra) or ["C01", "C02"]
        for pid in props:
            if pid in ("C10", "C12", "C16", "C17", "C18", "C19"): need_cli = True
        env = dict(os.environ, VERIF_OUT=f"{WS}/out", VERIF_TIER=tier, VERIF_SHRINK_MS=os.environ.get("VERIF_SHRINK_MS", "2000"))
        if need_cli:
            c = sh(f"cd {WS}/repo && CARGO_NET_OFFLINE=true cargo build --bin cteepbd --target-dir {WS}/target-cli 2>&1")
            env['VERIF_CLI'] = f"{WS}/target-cli/debug/cteepbd"
        for pid in props:
            t0 = time.time()
            r = subprocess.run([f"{WS}/target-harness/release/vcheck", pid], capture_output=True, text=True, env=env)
            dt = time.time() - t0
            ev = 0
            mm = re.search(r"evaluations=(\d+)", r.stdout)
            if mm: ev = int(mm.group(1))
            why = ""
            mm = re.search(r"failure: (\[[^\]]*\])", r.stderr)
            if mm: why = mm.group(1)
            fw = ""
            mm = re.search(r"failing workers: (\d+) of (\d+)", r.stderr)
            if mm: fw = f", {mm.group(1)}/{mm.group(2)} workers"
            row[pid] = {0: "silent", 1: "DETECTED", 2: "undecided"}.get(r.returncode, str(r.returncode)) + f" ({ev} cases{fw}, {dt:.1f}s) {why}"
        exp = "expected: " + (",".join(mut['props']) if mut['props'] else "no alarm (control)")
        print(f"{mut['name']}: {row}  [{exp}]", flush=True)
        results.append((mut['name'], 'ran', row))
    restore()
    with open(f"{WS}/out/last_results.json", "w") as f:
        json.dump(results, f, indent=1)
    if "--write-results" in args:
        byname = {m['name']: m for m in M}
        lines = ["# Sensitivity results (generated by run.py --all --tests --write-results)", "",
                 "Each mutant is applied to a scratch copy of /repo; `tests` = the repository's own suite with the mutant (p = passed, f = failed; 91p/0f means the mutant is invisible to the existing tests); then the quick tier of the listed checks.", "",
                 "| mutant | what it does | repo tests | expected to fire | result |", "|---|---|---|---|---|"]
        for name, st, row in results:
            mut = byname.get(name, {})
            exp = ", ".join(mut.get('props', [])) or "nothing (control)"
            res = "; ".join(f"{k}: {v}" for k, v in row.items() if k != 'tests') if st == 'ran' else st
            lines.append(f"| {name} | {mut.get('note','')} | {row.get('tests','-')} | {exp} | {res} |")
        open(os.path.join(os.path.dirname(__file__), "RESULTS.md"), "w").write("\n".join(lines) + "\n")

if __name__ == "__main__":
    main()
