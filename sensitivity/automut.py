#!/usr/bin/env python3
"""Systematic mutation of /repo/src (operator-level, every site), run against the quick tier of all
19 checks. Complements mutants.py (hand-written, property-directed) and seeded/ (written by
independent sub-agents): here nobody chooses where the change goes.

For every mutant: apply it to a scratch copy of /repo, build the harness against the copy, run the
quick tier of the checks (in-process ones first, then - after building the mutated CLI - the ones
that drive the program) and stop at the first check that fires. A mutant that no check notices is
run against the repository's own test suite: `survived` (tests pass as well: a hole in the checks
or an equivalent mutant - each one is then explained by hand in AUTOMUT.md) or `tests_only`.

usage: automut.py [--workers N] [--limit N] [--files a.rs,b.rs] [--report-only]
Scratch: /tmp/automut/w<i>/ (removed with --clean). Results accumulate in automut_results.json
(a mutant already there is not run again), the report is AUTOMUT.md.
"""
import os, sys, re, json, subprocess, shutil, time, glob, hashlib
from concurrent.futures import ThreadPoolExecutor
import threading

HERE = os.path.dirname(os.path.abspath(__file__))
ROOT = "/tmp/automut"
RESULTS = os.path.join(HERE, "automut_results.json")
INPROC = ["C02", "C04", "C01", "C05", "C06", "C07", "C15", "C12", "C13", "C03", "C09", "C11", "C14", "C08"]
CLI = ["C19", "C17", "C18", "C16", "C10"]

def sh(cmd, **kw):
    return subprocess.run(cmd, shell=True, capture_output=True, text=True, **kw)

# ---------------------------------------------------------------- mutation operators
OPS = [
    ("rel", r" <= ", " < "), ("rel", r" >= ", " > "), ("rel", r" < ", " <= "), ("rel", r" > ", " >= "),
    ("rel-flip", r" < ", " > "), ("rel-flip", r" > ", " < "),
    ("eq", r" == ", " != "), ("eq", r" != ", " == "),
    ("arith", r" \+ ", " - "), ("arith", r" - ", " + "), ("arith", r" \* ", " / "), ("arith", r" / ", " * "),
    ("assign", r" \+= ", " -= "), ("assign", r" -= ", " += "),
    ("logic", r" && ", " || "), ("logic", r" \|\| ", " && "),
    ("minmax", r"\.min\(", ".max("), ("minmax", r"\.max\(", ".min("),
    ("minmax", r"vecvecmin\(", "vecvecsum("), ("minmax", r"vecvecsum\(", "vecvecdif("), ("minmax", r"vecvecdif\(", "vecvecsum("),
    ("const", r"\b0\.0\b", "1.0"), ("const", r"\b1\.0\b", "0.0"), ("const", r"\b0\.01\b", "0.02"), ("const", r"\b1e-3\b", "2e-3"),
    ("bool", r"\btrue\b", "false"), ("bool", r"\bfalse\b", "true"),
    ("neg", r"(?<=[ (])!(?=[a-zA-Z_(*&])", ""),
    ("opt", r"\.is_some\(\)", ".is_none()"), ("opt", r"\.is_none\(\)", ".is_some()"),
    ("iter", r"\.any\(", ".all("), ("iter", r"\.all\(", ".any("),
    ("flow", r"\bcontinue;", "break;"),
    ("dom", r"\bStep::A\b", "Step::B"), ("dom", r"\bStep::B\b", "Step::A"),
    ("dom", r"\bDest::A_RED\b", "Dest::A_NEPB"), ("dom", r"\bDest::A_NEPB\b", "Dest::A_RED"),
    ("dom", r"\bSource::INSITU\b", "Source::COGEN"), ("dom", r"\bSource::COGEN\b", "Source::INSITU"),
    ("dom", r"\bA_RED\b", "A_NEPB"), ("dom", r"\bA_NEPB\b", "A_RED"),
    ("dom", r"\bEL_INSITU\b", "EL_COGEN"), ("dom", r"\bEL_COGEN\b", "EL_INSITU"),
    ("dom", r"\.ren\b", ".nren"), ("dom", r"\.nren\b", ".ren"),
    ("dom", r"\bis_epb_use\(\)", "is_used()"), ("dom", r"\bis_nearby\(\)", "is_onsite()"),
    ("unwrap", r"\.unwrap_or_default\(\)", ".unwrap_or(1.0)"),
]
STMT_DELETE = re.compile(r"^\s*[A-Za-z_][\w\.\[\]\(\)&\*: ]*\s*(\+=|-=|\.push\(|\.insert\(|\.retain\(|\.sort|\.dedup|\.extend\(|\.remove\()")

def mask_text(text):
    """blank out string literals (also raw and multi-line), char literals, // and /* */ comments, keeping
    every character position and every newline"""
    out = []
    i, n = 0, len(text)
    def blank(seg):
        return "".join(c if c == "\n" else " " for c in seg)
    while i < n:
        c = text[i]
        if text.startswith("//", i):
            j = text.find("\n", i)
            j = n if j < 0 else j
            out.append(blank(text[i:j])); i = j
        elif text.startswith("/*", i):
            depth, j = 1, i + 2
            while j < n and depth:
                if text.startswith("/*", j): depth += 1; j += 2
                elif text.startswith("*/", j): depth -= 1; j += 2
                else: j += 1
            out.append(blank(text[i:j])); i = j
        elif c == "r" and re.match(r'r#*"', text[i:i+8]) and (i == 0 or not (text[i-1].isalnum() or text[i-1] == "_")):
            m = re.match(r'r(#*)"', text[i:])
            close = '"' + m.group(1)
            j = text.find(close, i + len(m.group(0)))
            j = n if j < 0 else j + len(close)
            out.append('"' + blank(text[i+1:j-1]) + '"'); i = j
        elif c == '"':
            j = i + 1
            while j < n and text[j] != '"':
                j += 2 if text[j] == "\\" else 1
            j = min(j + 1, n)
            out.append('"' + blank(text[i+1:j-1]) + '"'); i = j
        elif c == "'" and re.match(r"'(\\.|[^\\'])'", text[i:i+4]):
            m = re.match(r"'(\\.|[^\\'])'", text[i:i+4])
            out.append(" " * len(m.group(0))); i += len(m.group(0))
        else:
            out.append(c); i += 1
    return "".join(out)

def sites(files=None):
    muts = []
    for path in sorted(glob.glob("/repo/src/**/*.rs", recursive=True)):
        rel = os.path.relpath(path, "/repo")
        if files and not any(rel.endswith(f) for f in files):
            continue
        text = open(path).read()
        lines = text.split("\n")
        masked = mask_text(text).split("\n")
        assert len(masked) == len(lines)
        for ln, line in enumerate(lines, 1):
            if "#[cfg(test)]" in line and "// <--" not in line:
                break
            st = line.strip()
            if not st or st.startswith("//") or st.startswith("#[") or st.startswith("use ") or st.startswith("pub use "):
                continue
            m = masked[ln - 1]
            if not m.strip():
                continue
            # clap help / about strings and messages are masked; skip pure-literal lines
            for name, pat, rep in OPS:
                for mt in re.finditer(pat, m):
                    new = line[:mt.start()] + rep + line[mt.end():]
                    if new != line:
                        muts.append(dict(file=rel, line=ln, col=mt.start(), op=name, old=line, new=new))
            if STMT_DELETE.match(m) and st.endswith(";"):
                muts.append(dict(file=rel, line=ln, col=0, op="delete", old=line, new=re.sub(r"\S.*", "{}", line, count=1)))
    for mu in muts:
        mu["id"] = hashlib.sha1(f"{mu['file']}:{mu['line']}:{mu['col']}:{mu['new']}".encode()).hexdigest()[:12]
    # de-duplicate identical resulting lines
    seen, out = set(), []
    for mu in muts:
        k = (mu["file"], mu["line"], mu["new"])
        if k not in seen:
            seen.add(k); out.append(mu)
    return out

# ---------------------------------------------------------------- workspaces
def setup(ws):
    os.makedirs(ws, exist_ok=True)
    sh(f"rsync -a --delete --exclude target --exclude .git /repo/ {ws}/repo/")
    sh(f"rsync -a --delete --exclude .cargo /verif/harness/ {ws}/harness/")
    t = open(f"{ws}/harness/Cargo.toml").read().replace('path = "/repo"', f'path = "{ws}/repo"')
    open(f"{ws}/harness/Cargo.toml", "w").write(t)
    os.makedirs(f"{ws}/harness/.cargo", exist_ok=True)
    open(f"{ws}/harness/.cargo/config.toml", "w").write(f'[net]\noffline = true\n[build]\ntarget-dir = "{ws}/target-harness"\n')
    os.makedirs(f"{ws}/out", exist_ok=True)
    os.makedirs(f"{ws}/scratch", exist_ok=True)
    b = sh(f"cd {ws}/harness && CARGO_NET_OFFLINE=true cargo build --release 2>&1")
    c = sh(f"cd {ws}/repo && CARGO_NET_OFFLINE=true cargo build --offline --bin cteepbd --target-dir {ws}/target-cli 2>&1")
    t = sh(f"cd {ws}/repo && CARGO_NET_OFFLINE=true cargo test --workspace --no-run --offline --target-dir {ws}/target-repo 2>&1")
    return b.returncode == 0 and c.returncode == 0

def run_check(ws, pid):
    env = dict(os.environ, VERIF_OUT=f"{ws}/out", VERIF_TIER="quick", VERIF_SHRINK_MS="1", VERIF_CLI=f"{ws}/target-cli/debug/cteepbd", VERIF_SCRATCH=f"{ws}/scratch", VERIF_SEED=os.environ.get("VERIF_SEED", "1"))
    try:
        r = subprocess.run([f"{ws}/target-harness/release/vcheck", pid], capture_output=True, text=True, env=env, timeout=900)
    except subprocess.TimeoutExpired:
        return 2, "timeout", 0
    why = ""
    mm = re.search(r"failure: (\[[^\]]*\])", r.stderr)
    if mm: why = mm.group(1)
    ev = 0
    mm = re.search(r"evaluations=(\d+)", r.stdout)
    if mm: ev = int(mm.group(1))
    return r.returncode, why, ev

def run_mutant(ws, mu):
    path = f"{ws}/repo/{mu['file']}"
    orig = open(f"/repo/{mu['file']}").read()
    lines = orig.split("\n")
    assert lines[mu["line"] - 1] == mu["old"]
    lines[mu["line"] - 1] = mu["new"]
    res = dict(mu)
    t0 = time.time()
    try:
        open(path, "w").write("\n".join(lines))
        b = sh(f"cd {ws}/harness && CARGO_NET_OFFLINE=true cargo build --release 2>&1")
        if b.returncode != 0:
            res["status"] = "nocompile"; return res
        is_bin = mu["file"].startswith("src/bin/")
        undecided = []
        if not is_bin:
            for pid in INPROC:
                rc, why, ev = run_check(ws, pid)
                if rc == 1:
                    res.update(status="detected", by=pid, why=why, cases=ev); return res
                if rc != 0:
                    undecided.append(pid)
        c = sh(f"cd {ws}/repo && CARGO_NET_OFFLINE=true cargo build --offline --bin cteepbd --target-dir {ws}/target-cli 2>&1")
        if c.returncode != 0:
            res["status"] = "nocompile"; return res
        for pid in CLI:
            rc, why, ev = run_check(ws, pid)
            if rc == 1:
                res.update(status="detected", by=pid, why=why, cases=ev); return res
            if rc != 0:
                undecided.append(pid)
        r = sh(f"cd {ws}/repo && CARGO_NET_OFFLINE=true timeout 600 cargo test --workspace --no-fail-fast --offline --target-dir {ws}/target-repo 2>&1")
        passed = sum(int(x) for x in re.findall(r"test result: \w+\. (\d+) passed", r.stdout))
        failed = sum(int(x) for x in re.findall(r"test result: \w+\. \d+ passed; (\d+) failed", r.stdout))
        res["tests"] = f"{passed}p/{failed}f"
        res["undecided"] = undecided
        res["status"] = "survived" if (failed == 0 and passed >= 91) else "tests_only"
        return res
    finally:
        open(path, "w").write(orig)
        res["secs"] = round(time.time() - t0, 1)

# ---------------------------------------------------------------- report
def report(all_muts, results):
    by = {}
    for r in results.values():
        by.setdefault(r["status"], []).append(r)
    n = len(results)
    lines = ["# Systematic mutation of /repo/src against the quick tier of all checks", "",
             "Generated by `sensitivity/automut.py` (operators: relational, equality, arithmetic, compound assignment, logic, min/max, vector helpers,",
             "constants, booleans, negation, Option/iterator predicates, continue->break, domain swaps (Step A/B, A_RED/A_NEPB, INSITU/COGEN, ren/nren, ...), statement deletion;",
             "every site outside `#[cfg(test)]`, comments and string literals).", "",
             f"Sites enumerated: {len(all_muts)}; run so far: {n}.", "",
             "| outcome | mutants |", "|---|---|"]
    for k in ["detected", "survived", "tests_only", "nocompile"]:
        lines.append(f"| {k} | {len(by.get(k, []))} |")
    det = by.get("detected", [])
    viable = len(det) + len(by.get("survived", [])) + len(by.get("tests_only", []))
    if viable:
        lines += ["", f"Of the {viable} mutants that compile, the checks notice {len(det)} ({100.0*len(det)/viable:.1f} %)."]
    cnt = {}
    for r in det:
        cnt[r["by"]] = cnt.get(r["by"], 0) + 1
    lines += ["", "First check to fire (checks run in the order C02, C04, C01, C05, C06, C07, C15, C12, C13, C03, C09, C11, C14, C08, then C19, C17, C18, C16, C10 with the mutated program):", "",
              "| check | mutants it was first to notice |", "|---|---|"]
    for k in sorted(cnt):
        lines.append(f"| {k} | {cnt[k]} |")
    rules = []
    nf = os.path.join(HERE, "automut_notes.json")
    if os.path.exists(nf):
        rules = json.load(open(nf)).get("rules", [])
    def note(r):
        key = f"{r['file']}:{r['line']}"
        for pat, text in rules:
            if re.search(pat, key):
                return text
        return "**unexplained**"
    for k, title in [("survived", "Mutants no check noticed and the repository's tests pass with"), ("tests_only", "Mutants no check noticed but the repository's own tests catch")]:
        lines += ["", f"## {title}", "", "| file:line | operator | original | mutated | explanation |", "|---|---|---|---|---|"]
        for r in sorted(by.get(k, []), key=lambda r: (r["file"], r["line"], r["col"])):
            esc = lambda s: s.strip().replace("|", "\\|")
            lines.append(f"| {r['file']}:{r['line']} | {r['op']} | `{esc(r['old'])}` | `{esc(r['new'])}` | {note(r)} |")
    open(os.path.join(HERE, "AUTOMUT.md"), "w").write("\n".join(lines) + "\n")

def main():
    a = sys.argv[1:]
    if "--clean" in a:
        shutil.rmtree(ROOT, ignore_errors=True); return
    workers = int(a[a.index("--workers") + 1]) if "--workers" in a else 4
    limit = int(a[a.index("--limit") + 1]) if "--limit" in a else None
    files = a[a.index("--files") + 1].split(",") if "--files" in a else None
    muts = sites(files)
    results = json.load(open(RESULTS)) if os.path.exists(RESULTS) else {}
    if "--list" in a:
        print(len(muts), "sites;", len([m for m in muts if m["id"] in results]), "done"); return
    if "--report-only" in a:
        report(sites(), results); return
    todo = [m for m in muts if m["id"] not in results]
    if "--shuffle" in a:
        import random
        random.Random(1).shuffle(todo)
    if limit:
        todo = todo[:limit]
    print(f"{len(muts)} sites, {len(todo)} to run, {workers} workers", flush=True)
    wss = [f"{ROOT}/w{i}" for i in range(workers)]
    with ThreadPoolExecutor(workers) as ex:
        ok = list(ex.map(setup, wss))
    if not all(ok):
        print("workspace setup failed"); sys.exit(2)
    lock = threading.Lock()
    free = list(wss)
    done = [0]
    def job(mu):
        with lock:
            ws = free.pop()
        try:
            r = run_mutant(ws, mu)
        except Exception as e:
            r = dict(mu, status="error", error=str(e))
        with lock:
            free.append(ws)
            if r["status"] != "error":
                results[mu["id"]] = r
            done[0] += 1
            if done[0] % 10 == 0:
                json.dump(results, open(RESULTS, "w"), indent=0)
            print(f"[{done[0]}/{len(todo)}] {mu['file']}:{mu['line']} {mu['op']} -> {r['status']} {r.get('by','')} {r.get('why','')} {r.get('tests','')} ({r.get('secs','?')}s)", flush=True)
    with ThreadPoolExecutor(workers) as ex:
        list(ex.map(job, todo))
    json.dump(results, open(RESULTS, "w"), indent=0)
    report(sites(), results)

if __name__ == "__main__":
    main()
