#!/usr/bin/env python3
"""Validates the harness' hand-written XML well-formedness checker (harness/src/xmlcheck.rs)
against Python's expat on generated documents: well-formed documents built from a grammar with
nasty text (escaped and unescaped), plus single-character corruptions of them.
usage: xml_crosscheck.py [N] [seed]   -> prints agreement counts; exit 1 on any disagreement.
This validates the oracle of C17; it does not decide the property."""
import os, random, subprocess, sys, tempfile, shutil
import xml.parsers.expat as expat

N = int(sys.argv[1]) if len(sys.argv) > 1 else 3000
rnd = random.Random(int(sys.argv[2]) if len(sys.argv) > 2 else 0)
TOK = ["<", ">", "&", '"', "'", "\\", "]]>", "-->", "&amp;", "&lt;", "á", "ñ", "é", "\U0001F600", "\t", "a", "B", "0", " ", "#", ",", ";", "=", "%", "--", "<b>", "</Comentario>", "<!--", "&#", "&;", "�", "Ω", "&#65;", "&#x41;", "&apos;", "&quot;", "&gt;"]
NAMES = ["BalanceEPB", "Componentes", "Consumo", "Id", "Valores", "Comentario", "Metadato", "Clave", "Valor", "Demanda", "Factor", "ren"]

def esc(t):
    return t.replace("&", "&amp;").replace("<", "&lt;").replace(">", "&gt;").replace('"', "&quot;")

def text(escaped):
    t = "".join(rnd.choice(TOK) for _ in range(rnd.randint(0, 6)))
    return esc(t) if escaped else t

def elem(depth, escaped):
    n = rnd.choice(NAMES)
    if rnd.random() < 0.1:
        return f"<{n}/>"
    attrs = ""
    if rnd.random() < 0.15:
        attrs = f' a="{esc(text(False))}"'
    body = ""
    for _ in range(rnd.randint(0, 3)):
        r = rnd.random()
        if r < 0.4 and depth < 4:
            body += elem(depth + 1, escaped)
        elif r < 0.8:
            body += text(escaped)
        elif r < 0.9:
            body += "<!-- comentario -->"
        else:
            body += "\n    "
    return f"<{n}{attrs}>{body}</{n}>"

def corrupt(d):
    if not d:
        return d
    i = rnd.randrange(len(d))
    r = rnd.random()
    if r < 0.4:
        return d[:i] + d[i + 1:]
    if r < 0.7:
        return d[:i] + rnd.choice(["<", ">", "&", "/", '"', "--", "]]>", "\x01", "</x>"]) + d[i:]
    return d[:i] + d[i + 1:] + d[i]

def expat_ok(doc):
    p = expat.ParserCreate("utf-8")
    try:
        p.Parse(doc.encode("utf-8"), True)
        return True
    except expat.ExpatError:
        return False

tmp = tempfile.mkdtemp(prefix="xmlcc")
docs = {}
for k in range(N):
    escaped = rnd.random() < 0.8
    d = elem(0, escaped)
    # no XML declaration: the library never writes one, and the checker is deliberately lenient
    # about the content of processing instructions
    if rnd.random() < 0.4:
        d = corrupt(d)
    name = f"d{k:05d}.xml"
    docs[name] = d
    open(os.path.join(tmp, name), "w", encoding="utf-8").write(d)
out = subprocess.run(["/verif/.build/harness/release/vcheck", "xmlcheck-dir", tmp], capture_output=True, text=True).stdout
mine = dict(l.split() for l in out.splitlines() if l.strip())
agree_ok = agree_err = 0
dis = []
for name, d in docs.items():
    e = expat_ok(d)
    m = mine.get(name) == "OK"
    if e == m:
        if e: agree_ok += 1
        else: agree_err += 1
    else:
        dis.append((name, e, m, d))
shutil.rmtree(tmp)
print(f"documents={N} agree_well_formed={agree_ok} agree_malformed={agree_err} disagreements={len(dis)}")
for name, e, m, d in dis[:10]:
    print(f"  {name}: expat={'OK' if e else 'ERR'} mine={'OK' if m else 'ERR'} doc={d!r}")
sys.exit(1 if dis else 0)
