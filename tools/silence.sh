#!/bin/bash
# runs every check's tier ($1, default quick) for the given seeds from fresh processes and reports anything but OK
tier=${1:-quick}; shift
seeds=${@:-0 1 2 3 4 5 6 7 8 9}
for s in $seeds; do
  for p in C01 C02 C03 C04 C05 C06 C07 C08 C09 C10 C11 C12 C13 C14 C15 C16 C17 C18 C19; do
    out=$(VERIF_SEED=$s VERIF_FUZZ_SECS=${VERIF_FUZZ_SECS:-60} ./check.sh $p $tier 2>&1); rc=$?
    if [ $rc -ne 0 ] || echo "$out" | grep -q VIOLATION; then echo "seed=$s $p rc=$rc"; echo "$out" | grep -E "VIOLATION|failure|harness" | head -3; fi
  done
  echo "seed $s done"
done
