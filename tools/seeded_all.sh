#!/bin/bash
# runs every stored seeded change against the quick tier of the check of its own property
cd /verif/sensitivity
export MUTWS=/tmp/mutws2
for d in /verif/seeded/*/; do
  n=$(basename $d); p=${n%%-*}
  python3 run.py --patch $d/patch.diff --props $p 2>&1 | tail -1 | sed "s/^patch.diff\|^[^:]*:/$n:/"
done
