#!/bin/bash
# Measures which lines of /repo/src the quick tier of every in-process check executes (source-based
# coverage, nightly toolchain + its llvm-tools). Not a registered check: a tool to find generator holes.
# usage: tools/coverage.sh [tier] [seed]      -> /verif/sensitivity/COVERAGE.md
# Scratch output goes to $COV_DIR (default /tmp/verif_cov) and is removed at the end.
set -e
tier=${1:-quick}; seed=${2:-1}
COV=${COV_DIR:-/tmp/verif_cov}
LLVM=$(dirname "$(find /root/.rustup/toolchains/nightly-x86_64-unknown-linux-gnu/lib/rustlib -name llvm-profdata | head -1)")
rm -rf "$COV"; mkdir -p "$COV/prof" "$COV/out"
cd /verif/harness
export CARGO_NET_OFFLINE=true
export LLVM_PROFILE_FILE="$COV/build/%p.profraw"   # build scripts and proc macros are instrumented too
RUSTFLAGS="-C instrument-coverage" cargo +nightly build --release --offline --target-dir "$COV/target" 2>&1 | tail -2
# the CLI too (C10/C16-C19 drive it out of process)
(cd /repo && RUSTFLAGS="-C instrument-coverage" cargo +nightly build --offline --target-dir "$COV/repo" 2>&1 | tail -1)
BIN="$COV/target/release/vcheck"
for p in C01 C02 C03 C04 C05 C06 C07 C08 C09 C10 C11 C12 C13 C14 C15 C16 C17 C18 C19; do
  LLVM_PROFILE_FILE="$COV/prof/$p-%8m.profraw" VERIF_SCRATCH="$COV/scratch" VERIF_CLI="$COV/repo/debug/cteepbd" VERIF_OUT="$COV/out" VERIF_SEED=$seed VERIF_FUZZ_SECS=0 \
    "$BIN" $p --tier $tier > "$COV/out/$p.log" 2>&1 || echo "$p rc=$?"
done
"$LLVM/llvm-profdata" merge -sparse "$COV"/prof/*.profraw -o "$COV/all.profdata"
"$LLVM/llvm-cov" export -format=lcov -instr-profile "$COV/all.profdata" "$BIN" -object "$COV/repo/debug/cteepbd" \
  -ignore-filename-regex='(/verif/|\.cargo|rustc/|/harness/)' > "$COV/all.lcov" 2>/dev/null
python3 /verif/tools/coverage_report.py "$COV/all.lcov" "$tier" "$seed" > /verif/sensitivity/COVERAGE.md
rm -rf "$COV"
tail -40 /verif/sensitivity/COVERAGE.md
