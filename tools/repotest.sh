#!/bin/bash
# run the repository's own test suite (guard off) and print the totals
cd "${1:-/repo}" && CARGO_NET_OFFLINE=true cargo test --workspace --no-fail-fast --offline 2>&1 | awk '/^test result/ {p+=$4; f+=$6} /FAILED|failed/ && !/test result/ {print} END {print "passed=" p " failed=" f}'
