#!/usr/bin/env python3
"""lcov -> markdown: per-file line coverage of /repo/src and the uncovered lines with their text."""
import sys, collections
lcov, tier, seed = sys.argv[1:4]
files = collections.OrderedDict()
cur = None
for line in open(lcov):
    line = line.strip()
    if line.startswith("SF:"):
        cur = line[3:]
        files.setdefault(cur, {})
    elif line.startswith("DA:") and cur:
        n, h = line[3:].split(",")[:2]
        files[cur][int(n)] = files[cur].get(int(n), 0) + int(h)
print(f"# Lines of /repo/src executed by the {tier} tier of all checks (seed {seed})\n")
print("Produced by `tools/coverage.sh` (source-based coverage of the harness binary and of the CLI it drives).")
print("A tool for finding generator holes, not a check: uncovered lines are listed so that each can be explained.\n")
print("| file | instrumented lines | executed | % |\n|---|---|---|---|")
tot = [0, 0]
rows = []
for f, da in files.items():
    if "/repo/src/" not in f:
        continue
    n = len(da); c = sum(1 for h in da.values() if h > 0)
    tot[0] += n; tot[1] += c
    rows.append((f, n, c))
    print(f"| {f.replace('/repo/','')} | {n} | {c} | {100.0*c/max(n,1):.1f} |")
print(f"| **total** | {tot[0]} | {tot[1]} | {100.0*tot[1]/max(tot[0],1):.1f} |\n")
print("## Uncovered lines\n")
for f, n, c in rows:
    da = files[f]
    miss = sorted(k for k, h in da.items() if h == 0)
    if not miss:
        continue
    try:
        src = open(f).read().split("\n")
    except OSError:
        continue
    print(f"### {f.replace('/repo/','')}\n\n```")
    prev = None
    for k in miss:
        if prev is not None and k != prev + 1:
            print("   ...")
        print(f"{k:5d}: {src[k-1] if k-1 < len(src) else ''}")
        prev = k
    print("```\n")
