#!/bin/bash
# usage: seeded_confirm.sh <Cxx> <worktree>
# Confirms a sub-agent's seeded change in its own worktree: (1) existing tests pass with the change,
# (2) the demonstration fails with the change and (3) passes without it. Prints a summary.
id=$1; wt=$2
cd "$wt" || exit 2
export CARGO_NET_OFFLINE=true
T="--target-dir $wt/target"
with=$(cargo test --workspace --no-fail-fast --offline $T 2>&1 | awk '/^test result/ {p+=$4; f+=$6} END {print p "p/" f "f"}')
demo_with=$(cargo test --offline $T --test seeded_demo 2>&1 | awk '/^test result/ {print $4 "p/" $6 "f"}')
git diff -- src > /tmp/.confirm_$id.patch && git apply -R /tmp/.confirm_$id.patch
demo_without=$(cargo test --offline $T --test seeded_demo 2>&1 | awk '/^test result/ {print $4 "p/" $6 "f"}')
git apply /tmp/.confirm_$id.patch && rm -f /tmp/.confirm_$id.patch
echo "$id: suite_with_change(incl demo)=$with demo_with_change=$demo_with demo_without_change=$demo_without"
