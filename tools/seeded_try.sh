#!/bin/bash
# usage: seeded_try.sh <name e.g. C06-f> <props e.g. C06,C10> [workspace]
# confirms a sub-agent's change in its worktree /tmp/wt/<name> and runs the quick tier of the named checks against it
name=$1; props=$2; ws=${3:-/tmp/mutws2}
p=${name%%-*}
/verif/tools/seeded_confirm.sh $p /tmp/wt/$name 2>&1 | tail -1
cd /verif/sensitivity && MUTWS=$ws python3 run.py --patch /tmp/wt/$name/seeded.patch --props $props 2>&1 | tail -1
