#!/usr/bin/env python3
"""usage: seeded_store.py <name> <property> <worktree> <needs> <confirm-line> <check-results...>
Stores a confirmed seeded change under /verif/seeded/<name>/ (patch.diff, demonstration, meta.json)."""
import sys, os, shutil, json
name, prop, wt, needs, confirm = sys.argv[1:6]
results = sys.argv[6:]
d = f"/verif/seeded/{name}"
os.makedirs(d, exist_ok=True)
shutil.copy(f"{wt}/seeded.patch", f"{d}/patch.diff")
shutil.copy(f"{wt}/tests/seeded_demo.rs", f"{d}/seeded_demo.rs")
if os.path.exists(f"{wt}/SEEDED.md"):
    shutil.copy(f"{wt}/SEEDED.md", f"{d}/SEEDED.md")
meta = {
  "breaks_property": prop,
  "author": "independent sub-agent given only the property text and a scratch worktree of /repo (nothing from /verif)",
  "needs_to_manifest": needs,
  "confirmed_by_me": confirm,
  "what_i_ran": [
     "tools/seeded_confirm.sh: repository test suite with the change (existing 91 tests pass), demonstration fails with the change and passes without it",
     "sensitivity/run.py --patch <patch> --props <ids>: the patch applied to a scratch copy of /repo, quick tier of the named checks"],
  "check_results": results,
}
json.dump(meta, open(f"{d}/meta.json", "w"), indent=1)
print("stored", d)
