#!/usr/bin/env python3
"""Regenerates /verif/MANIFEST.json from the table below (kept in one place so it stays valid)."""
import json, sys

CHECKS = {
 "C01": dict(tech="property-based testing (proptest): generated buildings, conservation invariants checked on every carrier and step of the result",
             text="Held on every generated case: per-carrier, per-step conservation identities, non-negativity, bounds and per-source splits are asserted on the library's result for thousands (quick) / hundreds of thousands (thorough) of generated buildings covering all carriers, services, sources, regimes prod<use / prod>use / export to nEPB and grid, both load-matching modes. Exploration, not absence.",
             note="Trusts: generator soundness (inputs valid by construction, DESIGN 3.1), tolerance policy of DESIGN 3.4 (f32 rounding).", ref="4/C01"),
 "C02": dict(tech="property-based testing (proptest): differential against an independent f64 reference model of the EN ISO 52000-1 equations",
             text="Every numeric field of the EnergyPerformance value (per-step and annual flows, all weighted-energy terms per carrier / service / total, per-m2, RER) is compared with an independent f64 re-evaluation of equations (2),(9)-(14),(20)-(28),(32) on generated buildings x user/regulatory factor sets x k_exp x area x load matching; error parity is checked too. When the total is exactly zero RER must be 0. Exploration.",
             note="Trusts the reference model (written from the standard and the documented assumptions, no library logic shared) and the tolerance policy; reads the library's normalised component list as input (normalisation is C05/C06).", ref="4/C02"),

 "C03": dict(tech="property-based testing (proptest): metamorphic relation over four evaluations at k_exp = 0, 1, k1, k2",
             text="For generated buildings and factor sets every weighted field is checked to be affine in k_exp (w(k) = w(0) + k (w(1) - w(0))) at two interior points, B(0) = A per carrier / service / total / per m2, formula (20) per carrier, and every final-energy flow and step A quantity is checked to be independent of k_exp; buildings that export nothing must give the same result for all k. Exploration.",
             note="Trusts generator soundness and the tolerance policy (two evaluations differ by HashMap summation order).", ref="4/C03"),
 "C04": dict(tech="property-based testing (proptest): invariants (sums of breakdowns) plus a metamorphic area change",
             text="Every total is compared with the sum of the per-carrier figures, every by-service / by-carrier / by-source map with its total (keys neither missing nor invented), per-m2 x area with the absolute figure for every field, and a second evaluation with another area must change only arearef and the per-m2 block. Exploration over generated buildings, factor sets, k_exp and areas from 0.001 to 1e6. Per carrier the weighted breakdowns are checked too (weighted delivered = grid + on-site + cogeneration input, weighted exported step A = grid + nEPB).",
             note="Trusts generator soundness and the tolerance policy.", ref="4/C04"),

 "C08": dict(tech="property-based testing (proptest): differential, full versus stripped factor set under catch_unwind",
             text="For generated buildings (SALIDA lines anywhere, auxiliaries as only electricity, cogeneration with and without declared input, nEPB uses, surplus ambient/solar) and prepared factor sets, Factors::strip and both evaluations are run under catch_unwind: no panic, a successful evaluation stays successful, all numeric fields agree within tolerance, and strip only removes factors. The DHW indicator computed from either result (what the program adds after simplifying the factors) must be the same value or the same error; a quarter of the buildings come from the DHW grammar. 30 % of the factor sets carry explicit ELECTRICIDAD, COGEN lines as legacy files do. Exploration.",
             note="Trusts generator soundness and the tolerance policy.", ref="4/C08"),
 "C09": dict(tech="property-based testing (proptest): metamorphic relation under permutation and subdivision of time steps",
             text="Each generated building is evaluated in its base layout, with all steps permuted by a generated permutation and with each step split into m equal sub-steps (m in 2,3,4,5,8): every annual field and ratio must agree, per-step vectors must follow the permutation / carry 1/m, f_match must be unchanged. Exploration, cogeneration and load matching over-weighted.",
             note="Sub-step values stay >= 0.00125 kWh; v/m rounded to f32; tolerance policy.", ref="4/C09"),
 "C11": dict(tech="property-based testing (proptest): metamorphic scaling of energies and of the area",
             text="Generated buildings with DHW demand are scaled by c (powers of two from 2^-6 to 2^20 and 3.7, 10, 0.1, 1e3, 1e6, kept inside the property's value domain): energies, weighted energies and per-step vectors must scale by c, RER*, f_match and the DHW renewable fraction (value or error) must not change; scaling the area by c must divide only the per-m2 block. Values have up to four decimals, 30 % of the buildings are mapped into hundredths of a kWh (every magnitude v -> 0.01 + v/10^k) so that absolute thresholds of the order of 1e-3 bite, 30 % come from the DHW grammar. Exploration.",
             note="Domain 'zero or >= 0.01 kWh' applied to both buildings; ratio comparisons under the denominator noise rule.", ref="4/C11"),
 "C12": dict(tech="property-based testing (proptest): per-step invariants on regime-forced electricity buildings, pairwise load matching on/off",
             text="Electricity-centred generated buildings hit every regime per step (no production, no use, PV>=use, PV<use<=PV+CHP, use>PV+CHP, PV==use, only CHP). Checked per step: PV allocated before cogeneration, allocations bounded by use and production, f_match == 1 without load matching and equal to formula (32) within [0.5,1] with it, and load matching never increases self-use nor decreases grid delivery (all carriers). Exploration.",
             note="Tolerance policy; f_match compared at 2e-5.", ref="4/C12"),
 "C14": dict(tech="property-based testing (proptest): metamorphic monotonicity on pairs (building, building + extra EL_INSITU production)",
             text="For generated buildings under the four regulatory factor sets, k_exp in [0,1], both load-matching modes and generated non-negative per-step PV increments (zero, exactly / half / more than the uncovered use), non-renewable primary energy, CO2 (steps A and B) and grid-delivered energy must not increase and, at k_exp=0, RER must not decrease. One known finding (KF-C14-rer-cogen-displaced) is excused by signature. Increments range from 0.01 kWh to 500 MWh per step (very seasonal production). Exploration.",
             note="RER clause under the denominator noise rule; known finding signature = used cogenerated electricity decreases.", ref="4/C14"),

 "C05": dict(tech="property-based testing (proptest): parse generated files and compare with the generator's own lines; reference model of the completion; idempotence of normalize",
             text="Generated component files dense in EAMBIENTE/TERMOSOLAR lines (several systems, ids negative/repeated, uses for all services, declared production none/partial/exact/surplus/orphan) are parsed: every declared CONSUMO/PRODUCCION/SALIDA line must be found unchanged (ids, tags, f32 values, comments), demands must equal the sum of their lines, the added production must equal max(0, use - declared) per carrier, system and step and nothing else may be added; surplus is exported and nothing is delivered by the grid; normalising twice equals once numerically. Comments include marker words and the two comments the program writes on the components it adds itself (a saved output reused as input). Exploration.",
             note="AUX lines are C06's; numeric (not structural) comparison for idempotence, see DESIGN.", ref="4/C05"),
 "C06": dict(tech="property-based testing (proptest): reference model of the auxiliary split computed from the generated lines, checked after parsing and through the balance",
             text="For generated files with up to 5 auxiliary-bearing systems (single-service, multi-service with positive/negative/zero outputs, several AUX and SALIDA lines, electricity otherwise present or absent) the parsed AUX components are compared with a model: conservation per system and step, no negative share, EPB services only, single-service rule, output-magnitude proportions; then the electricity balance's EPB use per step and per service must equal CONSUMO + the split, also when AUX is the only electricity. One case in sixteen zeroes every output of a multi-service system: the file must then be refused, or the energy still conserved. Exploration.",
             note="Systems are assignable by construction except in the flagged unassignable cases; where all outputs are zero at a step only conservation and sign are required.", ref="4/C06"),
 "C07": dict(tech="property-based testing (proptest): generated factor files / locations / user factors, oracle = rules of the statement evaluated on the prepared set plus a building over its carriers",
             text="Generated user factor files (subsets of carriers, export and on-site lines present or absent, duplicates, shuffled, distinct values) and the four locations, with user RED1/RED2 given or not: kept lines bit-identical through find(), forced keys (1,0,0), step A/B export defaults, RED precedence, no MissingFactor when evaluating a generated building over the set's carriers, idempotence of normalize and of re-preparing the printed set, and rejection of unusable sets. The all-zero triple and (1, 0, 0) are drawn as values of their own. Exploration.",
             note="Usable sets always contain the electricity grid factor; no COGEN-source lines.", ref="4/C07"),
 "C13": dict(tech="property-based testing (proptest): invariants on RER values over generated buildings under regulatory factors at k_exp = 0",
             text="RER must equal ren/(ren+nren) of the reported step B energy, lie in [0,1], and 0 <= RER_onst <= RER_nrb <= RER whenever total primary energy is above rounding noise; all three must be 0 when the total is exactly 0. Three known findings (export of on-site / cogenerated electricity not netted by origin) are excused by signature and counted. Exploration.",
             note="Ratio tolerance and noise rule of DESIGN 3.4; signatures of known findings are predicates on exported flows and declared cogeneration inputs.", ref="4/C13"),
 "C15": dict(tech="property-based testing (proptest): DHW grammar with closed-form oracle, error-class parity and metamorphic invariances",
             text="A dedicated grammar builds DHW supply mixes (direct electric, heat pump incl. low-SCOP exclusion, solar thermal, RED1/RED2 with user factors, fossil boiler, biomass with/without SALIDA) with consistent, absent or zero demand, shared PV, auxiliaries, other services and nEPB uses; the reported fraction must match the f64 closed form, lie in [0,1], report the documented errors (and error_acs in misc) in the non-computable classes, and be invariant under added nEPB lines, added non-electric lines of other services, another k_exp and scaling by 2^k (also with cogeneration present). The grammar also has a cogeneration unit (1-3 nearby/distant fuels with own profiles, steps without electricity, or no production line at all) whose contribution is part of the closed form, biomass systems that also heat under the same id, a generated reference area with an 'another area' invariance, and the indicator map must hold either the value or the error also when a result carrying stale entries is completed again. Exploration.",
             note="Closed form validated against the library on >1M cases; cogeneration is in the anchor of the property but not in its list of canonical mixes (DESIGN 8.2); tolerance 1e-4 plus f32 noise term proportional to DHW inputs / demand.", ref="4/C15"),

 "C19": dict(tech="property-based testing (proptest) driving the real cteepbd binary out of process, oracle = precedence model of the statement",
             text="Each generated case is one run of /repo's cteepbd binary with, independently for area, k_exp, location, RED1, RED2, the option absent/valid/invalid and the metadata absent/valid/invalid (boundaries, out-of-range, non-numeric, empty), factor source none / -l / -f incl. the -f/-l conflict. Checked: exit status (0/1/64/65), the three echo lines with origin and value, --json k_exp/arearef/wfactors, --oc metadata, C_ep of the report against an in-process evaluation with the effective parameters, and no report / result files on refusal. Exploration over the configuration matrix. RED1/RED2 metadata are written in the three documented forms (a, b, c / (a, b, c) / { ren: a, nren: b, co2: c } in any key order), components of the triples are often exactly 0 or 1. Invalid RED metadata include malformed triples (too many or too few items, trailing comma, decimal commas).",
             note="Corners on which the statement is silent accept both behaviours (listed in evidence assumptions); debug build of the CLI.", ref="4/C19"),

 "C17": dict(tech="property-based testing (proptest): validity predicates on the three output documents (strict XML checker, JSON round trip, report parser) over generated results with nasty comment / metadata strings; a sample also through the real binary",
             text="For generated results whose comments and metadata contain <, >, &, quotes, backslashes, ]]>, -->, partial entities, combining and astral characters: to_xml() must pass a strict well-formedness checker and state kexp, AreaRef, Epm2, every Valores list and every factor of the struct; the JSON must be valid, read back into a result and re-serialise to the same document (up to the 3-decimal rounding); every labelled number and table of to_plain() must match the struct, table keys exact and sorted; a second evaluation must print the same labels and numbers. About 1-3 % of the cases also run cteepbd --json --xml --txt and apply the same checks to the files (and --txt == stdout report). The plain report's DHW indicator line (per cent with one decimal, or a dash) is checked against the indicator map. Exploration.",
             note="Hand-written XML checker (no XML crate offline); comment content fidelity not claimed; one printed unit tolerance.", ref="4/C17"),

 "C18": dict(tech="property-based testing (proptest): round trip through Display / FromStr for components and factors, differential evaluation of both sides, and a sample through cteepbd --oc/--of and a second run on the emitted files",
             text="Generated component files (any layout: legacy lines without id, spacing, comment lines, BOM, CRLF, header; comments with '#', ',', ':'; metadata; AUX, SALIDA, DEMANDA, completion cases) and prepared factor sets are written with to_string() and parsed back: same metadata, demands within 0.005, components equal by (kind, id, tags) within 0.005 per printed value, same user comments, factors with the same keys in order within 0.0005, and the evaluation of the read-back pair within the accumulated printing error. About 1-2 % of the cases run cteepbd --oc/--of and re-run it on the emitted files, comparing the two reports. The factor set held by a result (with the derived COGEN-source lines) is round-tripped as well. Comments include words the program gives a meaning to (CTEEPBD_EXCLUYE_SCOP_ACS and the like); demand lines include magnitudes below 1 kWh and mixed signs. Exploration.",
             note="Grouped comparison (re-reading re-normalises); by-service weighted energy compared with a conditioning-aware slack; CLI part for areas >= 0.01 m2 (metadata precision).", ref="4/C18"),

 "C10": dict(tech="property-based testing (proptest): metamorphic relation between a canonical file and a generated meaning-preserving rewriting of it; repeated evaluation in process and in separate processes",
             text="Each generated building is rendered canonically and through a composition of rewritings (line permutation, splitting a line into pieces that add up, bijective id renumbering incl. to/from 0 and negative ids, omitted id 0, spacing, whitespace, blank and # lines, vector header, BOM, CRLF, demands/metadata positions): both must parse, all numeric fields, RER values and the DHW fraction must agree within tolerance, three repeated evaluations must agree, and a sample is run through the binary twice on the same file and once on the rewritten file (identical report lines, numbers within one printed unit). A fifth of the buildings come from the DHW grammar (multi-fuel cogeneration), and the DHW indicator is compared in the repeated evaluations as well. Renumbering covers ids beyond 2^24 up to i32::MAX and i32::MIN. Exploration.",
             note="Tolerance policy (HashMap summation order); lines are split only when their values are whole hundredths.", ref="4/C10"),

 "C16": dict(tech="property-based testing (proptest) with a corruption grammar and token soups under catch_unwind, out-of-process runs of the binary with a watchdog, and (thorough) two coverage-guided libFuzzer campaigns whose crashes are re-confirmed in process",
             text="Valid files from building() (without its soundness restrictions) and valid factor files are corrupted (fields / lines dropped, duplicated, truncated, swapped, replaced by NaN, inf, 1e39, empty, non-ASCII digits, unknown tags; changed value counts; raw lines such as #META without colon, NUL, DEMANDA of another length, SALIDA without id; CR-only line ends), token soups and the empty file are added, options are arbitrary f32 incl. NaN/inf: the whole library chain must return values or errors, any panic is a violation. About 5 % of the cases also run the binary with arbitrary UTF-8 option strings, unwritable output paths and missing files: status in {0,1,64,65,73,74}, no signal, no panic text, stderr on failure, 20 s watchdog. Thorough adds fz_components / fz_factors (libFuzzer, fork mode, seed corpus from test_data, dictionary). Dedicated corruptions write a special but parseable number (NaN, +-inf, negative, huge, subnormal) into one or all values of a line so that the odd value travels through the whole computation; the program is also run without -c, with --licencia and --red2. Exploration.",
             note="Files <= 4 KiB; UTF-8 argv only; debug build of the CLI; a fuzz artifact that does not reproduce in process (slow input, OOM) is inconclusive, not a violation.", ref="4/C16"),
}
PENDING = {}
TITLES = {}
for line in open('/verif/properties.jsonl'):
    p = json.loads(line); TITLES[p['id']] = p['title']

m = {
 "version": 1,
 "setup_cmd": "./setup.sh",
 "hooks": {
   "guard": "cteepbd_verif",
   "enable": "none needed: every observation point is public API; the harness crate depends on /repo by path and rebuilds it from the working tree",
   "baseline_off_cmd": "cd /repo && cargo test --workspace --no-fail-fast --offline",
   "source_commits": [],
   "add_only": True
 },
 "engines": [
   {"name": "libfuzzer", "path": "fuzz", "serves_properties": sorted(k for k in CHECKS.keys() if k != "C19"),
    "kind_free_text": "cargo-fuzz 0.13 crate, thorough tier only. (a) C16: two byte-level libFuzzer targets (fz_components, fz_factors; seed corpus under corpus/, dictionary fuzz/cteepbd.dict) whose oracle is 'no panic'; (b) every other in-process property: target fz_prop feeds the fuzzer's bytes to that property's own proptest strategy as its random stream (vendor/proptest: PassThrough RNG that never runs dry) and puts the decoded case through the property's plain check, so coverage guidance works on structured, sound cases and the full semantic oracle; a failing case is written as a JSON replay document by the target and re-confirmed by vcheck's plain check before it is reported"},
   {"name": "vcheck", "path": "harness", "serves_properties": sorted(CHECKS.keys()),
    "kind_free_text": "Rust binary using proptest 1.11 as a library (TestRunner, ChaCha seeded from VERIF_SEED, 16 workers), explicit oracles per property, shrinking to a JSON replay file; also drives /repo's cteepbd binary out of process for the CLI properties"},
 ],
 "checks": [],
 "not_applicable": [],
 "notes": "All checks: ./check.sh <id> quick|thorough rebuilds the library from /repo's working tree. Exit 0 held / 1 VIOLATION / 2 undecided. Known findings in known_findings.json. See DESIGN.md."
}
for pid in sorted(TITLES):
    if pid in CHECKS:
        c = CHECKS[pid]
        m["checks"].append({
          "property_id": pid,
          "quick_cmd": f"./check.sh {pid} quick",
          "thorough_cmd": f"./check.sh {pid} thorough",
          "evidence_file": f"/verif/evidence/{pid}.json",
          "replay_cmd_template": "./check.sh replay {path}",
          "engine": "vcheck",
          "level_claimed": {"category": "exploration", "text": c["text"], "design_ref": c["ref"]},
          "level_note": c["note"],
          "technique": c["tech"],
        })
    else:
        m["not_applicable"].append({"property_id": pid, "reason": PENDING.get(pid, "check not built yet (work in progress in this session); the technique applies, see DESIGN.md section 4")})
json.dump(m, open('/verif/MANIFEST.json','w'), indent=1, ensure_ascii=False)
print("checks:", len(m["checks"]), "not_applicable:", len(m["not_applicable"]))
