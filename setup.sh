#!/bin/bash
# one-time setup after a fresh restore: offline build of the harness and of /repo's CLI binary
set -u
VERIF=/verif
export CARGO_NET_OFFLINE=true
mkdir -p "$VERIF/.build" "$VERIF/evidence" "$VERIF/replays"
cd "$VERIF/harness" || exit 2
cargo build --release 2>&1 | tail -n 3
cargo build --manifest-path /repo/Cargo.toml --bin cteepbd --target-dir "$VERIF/.build/repo" 2>&1 | tail -n 3
test -x "$VERIF/.build/harness/release/vcheck"
