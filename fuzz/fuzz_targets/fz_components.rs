#![no_main]
//! libFuzzer target (engine E2): bytes -> (options, components text) -> the whole library chain.
//! The oracle is C16's own: any panic is a crash (the semantic oracles of the other properties
//! live in the proptest checks, so that a finding is attributed to the property it breaks).
use libfuzzer_sys::fuzz_target;

use cteepbd::{cte, energy_performance, AsCtePlain, AsCteXml, Components};

const LOCS: [&str; 4] = ["PENINSULA", "BALEARES", "CANARIAS", "CEUTAMELILLA"];

fuzz_target!(|data: &[u8]| {
    if data.len() < 2 || data.len() > 4096 {
        return;
    }
    let (o, text) = (data[0], &data[1..]);
    let text = match std::str::from_utf8(text) {
        Ok(t) => t,
        Err(_) => return,
    };
    let k = [0.0f32, 1.0, 0.5, f32::NAN][(o & 3) as usize];
    let area = [1.0f32, 100.0, 0.001, f32::INFINITY][((o >> 2) & 3) as usize];
    let lm = o & 16 != 0;
    let loc = LOCS[((o >> 5) & 3) as usize];
    let comps: Components = match text.parse() {
        Ok(c) => c,
        Err(e) => {
            let _ = e.to_string();
            return;
        }
    };
    // the oracle of C16 is "no panic": every call below must return a value or an error
    {
        use cteepbd::types::MetaVec;
        for k in ["CTE_RED1", "CTE_RED2", "CTE_AREAREF", "CTE_KEXP"] {
            let _ = comps.get_meta_rennren(k);
            let _ = comps.get_meta_f32(k);
        }
        for m in &comps.meta {
            let _ = m.value.parse::<cteepbd::types::RenNrenCo2>();
        }
    }
    let _ = comps.clone().normalize();
    let printed = comps.to_string();
    let _ = printed.parse::<Components>();
    let _ = comps.to_xml();
    let f = cte::wfactors_from_loc(loc, &cte::CTE_LOCWF_RITE2014, cteepbd::UserWF { red1: None, red2: None }, cte::CTE_USERWF).unwrap();
    let fs = f.clone().strip(&comps);
    for ff in [&f, &fs] {
        if let Ok(ep) = energy_performance(&comps, ff, k, area, lm) {
            let ep = cte::incorpora_demanda_renovable_acs_nrb(ep);
            let _ = ep.to_plain();
            let _ = ep.to_xml();
            let _ = serde_json::to_string(&ep);
        }
    }
});
