#![no_main]
//! libFuzzer target of engine E4: the bytes are the random stream of the proptest strategy of the
//! property named by VERIF_FUZZ_PROP; the decoded case goes through that property's plain check.
//! See /verif/harness/src/semfuzz.rs.
use libfuzzer_sys::fuzz_target;

fuzz_target!(|data: &[u8]| {
    vcheck::semfuzz::fuzz_entry(data);
});
