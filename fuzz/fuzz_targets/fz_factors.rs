#![no_main]
//! libFuzzer target (engine E2): bytes -> factors text -> parse / prepare / strip / evaluate.
//! The oracle is C16's own: any panic is a crash.
use libfuzzer_sys::fuzz_target;

use cteepbd::types::RenNrenCo2;
use cteepbd::{cte, energy_performance, AsCteXml, Components, Factors, UserWF};

const COMPS: &str = "0, CONSUMO, CAL, RED1, 10, 20\n0, CONSUMO, ACS, ELECTRICIDAD, 30, 10\n1, CONSUMO, ACS, EAMBIENTE, 60, 20\n0, PRODUCCION, EL_INSITU, 20, 40\n0, PRODUCCION, EL_COGEN, 5, 5\n0, CONSUMO, COGEN, GASNATURAL, 12, 12\n0, CONSUMO, NEPB, ELECTRICIDAD, 3, 30\n1, PRODUCCION, TERMOSOLAR, 5, 5\n";

fuzz_target!(|data: &[u8]| {
    if data.len() < 2 || data.len() > 4096 {
        return;
    }
    let (o, text) = (data[0], &data[1..]);
    let text = match std::str::from_utf8(text) {
        Ok(t) => t,
        Err(_) => return,
    };
    if let Ok(raw) = text.parse::<Factors>() {
        let _ = raw.to_string();
        let _ = raw.to_xml();
    }
    let user = UserWF { red1: if o & 1 != 0 { Some(RenNrenCo2::new(0.5, 0.6, 0.1)) } else { None }, red2: if o & 2 != 0 { Some(RenNrenCo2::new(f32::NAN, -1.0, 1e30)) } else { None } };
    let p = match cte::wfactors_from_str(text, user, cte::CTE_USERWF) {
        Ok(p) => p,
        Err(e) => {
            let _ = e.to_string();
            return;
        }
    };
    // the oracle of C16 is "no panic"
    let _ = p.clone().normalize(&cte::CTE_USERWF);
    let _ = p.to_string().parse::<Factors>();
    let comps: Components = COMPS.parse().unwrap();
    let fs = p.clone().strip(&comps);
    for ff in [&p, &fs] {
        let _ = energy_performance(&comps, ff, 0.5, 10.0, o & 4 != 0).map(|ep| serde_json::to_string(&ep));
    }
});
